(** C01: the encoders against the independent RFC parser. *)
From ZV Require Import Base.Bytes Base.Res Spec.Rfc23 Model.Codec Proofs.BytesProofs.
From Coq Require Import ZArith ZifyN ZifyNat ZifyBool.
Ltac Zify.zify_post_hook ::= Z.div_mod_to_equations.
Arguments N.add : simpl never.
Arguments N.mul : simpl never.
Arguments N.ltb : simpl never.
Arguments N.leb : simpl never.
Arguments N.pow : simpl never.
Arguments N.modulo : simpl never.
Arguments N.div : simpl never.

(** The code's constants are the RFC's (re-checked against the regenerated Gen.Src on every run). *)
Lemma gen_codec_constants :
  Gen.enc_flag_more = 1 /\ Gen.enc_flag_long = 2 /\ Gen.enc_short_max = 255 /\ Gen.enc_short_max2 = 255 /\
  Gen.enc_long_width = 8 /\ Gen.enc_short_width = 1 /\ Gen.enc_more_on_all_but_last = 1 /\
  Gen.cmd_flag_short = 4 /\ Gen.cmd_flag_long = 6 /\ Gen.cmd_short_max = 255 /\ Gen.cmd_long_width = 8 /\
  Gen.cmd_nlen_width = 1 /\ Gen.cmd_vlen_width = 4.
Proof. repeat split; reflexivity. Qed.

Lemma gen_greeting_constants :
  Gen.gr_len = 64 /\ Gen.gr_sig0_off = 0 /\ Gen.gr_sig0 = 255 /\ Gen.gr_sig9_off = 9 /\ Gen.gr_sig9 = 127 /\
  Gen.gr_major_off = 10 /\ Gen.gr_minor_off = 11 /\ Gen.gr_mech_off = 12 /\ Gen.gr_server_off = 32 /\
  Gen.gr_default_major = 3 /\ Gen.gr_default_minor = 0.
Proof. repeat split; reflexivity. Qed.

Definition frame_ok (f : bytes) : Prop := bytes_ok f = true /\ lenN f < 2 ^ 64.
Definition wf_msg (m : list bytes) : Prop := m <> [] /\ Forall frame_ok m.

Lemma frame_hdr_short more len : len <= 255 ->
  frame_hdr more len = [if more then 1 else 0; len].
Proof.
  intros H. unfold frame_hdr, frame_flags.
  change Gen.enc_short_max with 255. change Gen.enc_short_max2 with 255.
  change Gen.enc_flag_more with 1. change (N.to_nat Gen.enc_short_width) with 1%nat.
  destruct (N.ltb_spec 255 len); [lia|].
  rewrite be_1 by lia. destruct more; reflexivity.
Qed.

Lemma frame_hdr_long more len : 255 < len ->
  frame_hdr more len = (if more then 3 else 2) :: be 8 len.
Proof.
  intros H. unfold frame_hdr, frame_flags.
  change Gen.enc_short_max with 255. change Gen.enc_short_max2 with 255.
  change Gen.enc_flag_more with 1. change Gen.enc_flag_long with 2.
  change (N.to_nat Gen.enc_long_width) with 8%nat.
  destruct (N.ltb_spec 255 len); [|lia].
  destruct more; reflexivity.
Qed.

(** One-byte size exactly for bodies of at most 255 bytes, eight-byte network-order size otherwise. *)
Lemma encode_frame_shape more f :
  encode_frame more f =
    if lenN f <=? 255 then [if more then 1 else 0; lenN f] ++ f
    else ((if more then 3 else 2) :: be 8 (lenN f)) ++ f.
Proof.
  unfold encode_frame. destruct (N.leb_spec (lenN f) 255).
  - rewrite frame_hdr_short by assumption. reflexivity.
  - rewrite frame_hdr_long by assumption. reflexivity.
Qed.

Lemma rfc_frame_encode more f rest : frame_ok f ->
  rfc_frame (encode_frame more f ++ rest) =
    Some ({| wf_cmd := false; wf_long := 255 <? lenN f; wf_more := more; wf_body := f |}, rest).
Proof.
  intros [Hb Hl]. rewrite encode_frame_shape.
  destruct (N.leb_spec (lenN f) 255) as [Hs|Hs].
  - destruct (N.ltb_spec 255 (lenN f)); [lia|].
    cbn [app rfc_frame].
    assert (Hfl : rfc_flags (if more then 1 else 0) = Some (false, false, more)) by (destruct more; reflexivity).
    rewrite Hfl. cbn iota beta.
    rewrite lenN_app. destruct (N.ltb_spec (lenN f + lenN rest) (lenN f)); [lia|].
    rewrite firstnN_app_exact, skipnN_app_exact. reflexivity.
  - destruct (N.ltb_spec 255 (lenN f)); [|lia].
    cbn [app rfc_frame].
    assert (Hfl : rfc_flags (if more then 3 else 2) = Some (false, true, more)) by (destruct more; reflexivity).
    rewrite Hfl. cbn iota beta.
    rewrite <- app_assoc.
    assert (Hlen : lenN (be 8 (lenN f) ++ f ++ rest) <? 8 = false).
    { rewrite lenN_app. unfold lenN at 1. rewrite be_length. destruct (N.ltb_spec (N.of_nat 8 + lenN (f ++ rest)) 8); [lia|reflexivity]. }
    rewrite Hlen.
    rewrite (firstn_app_exact (be 8 (lenN f)) (f ++ rest) 8) by (rewrite be_length; reflexivity).
    rewrite (skipn_app_exact (be 8 (lenN f)) (f ++ rest) 8) by (rewrite be_length; reflexivity).
    rewrite of_be_be by (change (256 ^ N.of_nat 8) with (2 ^ 64); assumption).
    rewrite lenN_app. destruct (N.ltb_spec (lenN f + lenN rest) (lenN f)); [lia|].
    rewrite firstnN_app_exact, skipnN_app_exact. reflexivity.
Qed.

Lemma rfc_message_fuel_encode m : m <> [] -> Forall frame_ok m ->
  forall fuel rest, (length m <= fuel)%nat ->
  rfc_message_fuel fuel (encode_frames m ++ rest) = Some (m, rest).
Proof.
  induction m as [|f m IH]; [congruence|]. intros _ Hall fuel rest Hfuel.
  inversion Hall as [|? ? Hf Hm]; subst.
  destruct fuel as [|fuel]; [cbn [length] in Hfuel; lia|].
  destruct m as [|g m'].
  - cbn [encode_frames rfc_message_fuel]. rewrite rfc_frame_encode by assumption. reflexivity.
  - change (encode_frames (f :: g :: m')) with (encode_frame true f ++ encode_frames (g :: m')).
    rewrite <- app_assoc. cbn [rfc_message_fuel]. rewrite rfc_frame_encode by assumption.
    cbn [wf_cmd wf_more wf_body].
    rewrite IH; [reflexivity|congruence|assumption|cbn [length] in *; lia].
Qed.

Lemma encode_frame_length more f : (2 <= length (encode_frame more f))%nat.
Proof.
  rewrite encode_frame_shape. destruct (lenN f <=? 255); rewrite app_length; cbn [length]; rewrite ?be_length; lia.
Qed.

Lemma encode_frames_length m : (length m <= length (encode_frames m))%nat.
Proof.
  induction m as [|f m IH]; [cbn; lia|].
  destruct m as [|g m'].
  - cbn [encode_frames]. pose proof (encode_frame_length false f). cbn [length]. lia.
  - change (encode_frames (f :: g :: m')) with (encode_frame true f ++ encode_frames (g :: m')).
    rewrite app_length. pose proof (encode_frame_length true f). cbn [length] in *. lia.
Qed.

Theorem encode_is_rfc m : wf_msg m ->
  exists bs, encode_msg m = Ok bs /\ rfc_message bs = Some (m, []).
Proof.
  intros [Hne Hall]. exists (encode_frames m). split.
  - destruct m; [congruence|reflexivity].
  - unfold rfc_message. rewrite <- (app_nil_r (encode_frames m)) at 2.
    apply rfc_message_fuel_encode; try assumption.
    pose proof (encode_frames_length m). lia.
Qed.

(** Exact byte count: sum over frames of body + 2 or + 9. *)
Fixpoint wire_len (m : list bytes) : nat :=
  match m with [] => 0%nat | f :: t => (length f + (if (lenN f <=? 255)%N then 2 else 9) + wire_len t)%nat end.

Theorem encode_length m : length (encode_frames m) = wire_len m.
Proof.
  induction m as [|f m IH]; [reflexivity|].
  assert (Hone : forall more, length (encode_frame more f) = (length f + (if (lenN f <=? 255)%N then 2 else 9))%nat).
  { intros more. rewrite encode_frame_shape. destruct (lenN f <=? 255); rewrite app_length; cbn [length]; [lia|].
    rewrite be_length. lia. }
  destruct m as [|g m'].
  - cbn [encode_frames wire_len]. rewrite Hone. lia.
  - change (encode_frames (f :: g :: m')) with (encode_frame true f ++ encode_frames (g :: m')).
    rewrite app_length, IH, Hone. cbn [wire_len]. lia.
Qed.

(** MORE on every frame but the last, as the RFC frame parser sees it. *)
Definition mk_wf (more : bool) (f : bytes) : wire_frame :=
  {| wf_cmd := false; wf_long := 255 <? lenN f; wf_more := more; wf_body := f |}.

Fixpoint wire_frames (m : list bytes) : list wire_frame :=
  match m with
  | [] => []
  | [f] => [mk_wf false f]
  | f :: rest => mk_wf true f :: wire_frames rest
  end.

Lemma encode_frame_cons more f : exists b t, encode_frame more f = b :: t.
Proof. rewrite encode_frame_shape. destruct (lenN f <=? 255); cbn [app]; eauto. Qed.

Lemma rfc_frames_fuel_step more f rest fuel : frame_ok f ->
  rfc_frames_fuel (S fuel) (encode_frame more f ++ rest) =
  match rfc_frames_fuel fuel rest with Some ws => Some (mk_wf more f :: ws) | None => None end.
Proof.
  intros Hf. destruct (encode_frame_cons more f) as (b & t & E).
  pose proof (rfc_frame_encode more f rest Hf) as R.
  cbn [rfc_frames_fuel]. rewrite E in *. cbn [app] in *. rewrite R. reflexivity.
Qed.

Lemma rfc_frames_fuel_encode m : Forall frame_ok m ->
  forall fuel, (length m < fuel)%nat -> rfc_frames_fuel fuel (encode_frames m) = Some (wire_frames m).
Proof.
  induction m as [|f m IH]; intros Hall fuel Hfuel.
  - destruct fuel; [lia|reflexivity].
  - inversion Hall as [|? ? Hf Hm]; subst.
    destruct fuel as [|fuel]; [lia|].
    destruct m as [|g m'].
    + cbn [encode_frames wire_frames]. rewrite <- (app_nil_r (encode_frame false f)).
      rewrite rfc_frames_fuel_step by assumption.
      destruct fuel; [cbn [length] in Hfuel; lia|]. reflexivity.
    + change (encode_frames (f :: g :: m')) with (encode_frame true f ++ encode_frames (g :: m')).
      change (wire_frames (f :: g :: m')) with (mk_wf true f :: wire_frames (g :: m')).
      rewrite rfc_frames_fuel_step by assumption.
      rewrite IH; [reflexivity|assumption|cbn [length] in *; lia].
Qed.

Theorem encode_frames_rfc_frames m : Forall frame_ok m ->
  rfc_frames (encode_frames m) = Some (wire_frames m).
Proof.
  intros H. unfold rfc_frames. apply rfc_frames_fuel_encode; [assumption|].
  pose proof (encode_frames_length m). lia.
Qed.

Lemma wire_frames_more m : m <> [] ->
  map wf_more (wire_frames m) = repeat true (length m - 1) ++ [false].
Proof.
  induction m as [|f m IH]; [congruence|]. intros _.
  destruct m as [|g m']; [reflexivity|].
  change (wire_frames (f :: g :: m')) with (mk_wf true f :: wire_frames (g :: m')).
  cbn [map wf_more mk_wf]. rewrite IH by congruence.
  cbn [length]. replace (S (S (length m')) - 1)%nat with (S (S (length m') - 1)) by lia. reflexivity.
Qed.

Lemma wire_frames_minimal m : forallb rfc_minimal_size (wire_frames m) = true.
Proof.
  induction m as [|f m IH]; [reflexivity|].
  destruct m as [|g m'].
  - cbn. unfold rfc_minimal_size. cbn. rewrite eqb_reflx. reflexivity.
  - change (wire_frames (f :: g :: m')) with (mk_wf true f :: wire_frames (g :: m')).
    cbn [forallb]. rewrite IH. unfold rfc_minimal_size. cbn [wf_long wf_body mk_wf]. rewrite eqb_reflx. reflexivity.
Qed.

Lemma wire_frames_bodies m : map wf_body (wire_frames m) = m.
Proof.
  induction m as [|f m IH]; [reflexivity|].
  destruct m as [|g m']; [reflexivity|].
  change (wire_frames (f :: g :: m')) with (mk_wf true f :: wire_frames (g :: m')).
  cbn [map wf_body mk_wf]. rewrite IH. reflexivity.
Qed.

(** * Greeting *)
Theorem greeting_wf g : rfc_greeting_wf (encode_greeting g) = true.
Proof. destruct g as [a b [] []]; vm_compute; reflexivity. Qed.

Theorem greeting_version_mech g :
  rfc_greeting_version (encode_greeting g) = (g_major g, g_minor g) /\
  rfc_greeting_mech (encode_greeting g) = mech_name (g_mech g).
Proof. destruct g as [a b [] []]; vm_compute; split; reflexivity. Qed.

Theorem greeting_roundtrip g : parse_greeting (encode_greeting g) = Ok g.
Proof. destruct g as [a b [] []]; vm_compute; reflexivity. Qed.

Theorem greeting_default_bytes :
  encode_greeting default_greeting =
    [255; 0; 0; 0; 0; 0; 0; 0; 0; 127; 3; 0; 78; 85; 76; 76] ++ repeat 0 48.
Proof. vm_compute. reflexivity. Qed.

(** * READY *)
Definition prop_ok (kv : bytes * bytes) : Prop :=
  let '(k, v) := kv in
  1 <= lenN k /\ lenN k <= 255 /\ forallb is_name_char k = true /\ lenN v < 2 ^ 32.

Lemma rfc_metadata_encode props : Forall prop_ok props ->
  forall fuel, (length props < fuel)%nat ->
  rfc_metadata fuel (flat_map prop_bytes props) = Some props.
Proof.
  induction props as [|[k v] ps IH]; intros Hall fuel Hfuel.
  - destruct fuel; [lia|reflexivity].
  - inversion Hall as [|? ? Hkv Hps]; subst. destruct Hkv as (Hk1 & Hk2 & Hkc & Hv).
    destruct fuel as [|fuel]; [lia|].
    cbn [flat_map]. unfold prop_bytes at 1.
    change (N.to_nat Gen.cmd_nlen_width) with 1%nat. change (N.to_nat Gen.cmd_vlen_width) with 4%nat.
    rewrite be_1 by lia. rewrite <- !app_assoc. cbn [app rfc_metadata].
    destruct (N.eqb_spec (lenN k) 0); [lia|]. cbn [orb].
    rewrite lenN_app. destruct (N.ltb_spec (lenN k + lenN (be 4 (lenN v) ++ v ++ flat_map prop_bytes ps)) (lenN k)); [lia|].
    rewrite firstnN_app_exact, skipnN_app_exact. rewrite Hkc. cbn [negb].
    assert (Hl4 : lenN (be 4 (lenN v) ++ v ++ flat_map prop_bytes ps) <? 4 = false).
    { rewrite lenN_app. unfold lenN at 1. rewrite be_length.
      destruct (N.ltb_spec (N.of_nat 4 + lenN (v ++ flat_map prop_bytes ps)) 4); [lia|reflexivity]. }
    rewrite Hl4.
    rewrite (firstn_app_exact (be 4 (lenN v)) (v ++ flat_map prop_bytes ps) 4) by (rewrite be_length; reflexivity).
    rewrite (skipn_app_exact (be 4 (lenN v)) (v ++ flat_map prop_bytes ps) 4) by (rewrite be_length; reflexivity).
    rewrite of_be_be by (change (256 ^ N.of_nat 4) with (2 ^ 32); assumption).
    rewrite lenN_app. destruct (N.ltb_spec (lenN v + lenN (flat_map prop_bytes ps)) (lenN v)); [lia|].
    rewrite firstnN_app_exact, skipnN_app_exact.
    rewrite IH; [reflexivity|assumption|cbn [length] in Hfuel; lia].
Qed.

Lemma flat_map_prop_bytes_length props : (length props <= length (flat_map prop_bytes props))%nat.
Proof.
  induction props as [|[k v] ps IH]; [cbn; lia|].
  cbn [flat_map]. rewrite app_length. unfold prop_bytes at 1.
  rewrite !app_length, !be_length. change (N.to_nat Gen.cmd_nlen_width) with 1%nat. cbn [length]. lia.
Qed.

Lemma rfc_command_body_ready props : Forall prop_ok props ->
  rfc_command_body (ready_body props) = Some (ascii_READY, props).
Proof.
  intros H. unfold ready_body.
  change (be 1 (lenN ascii_READY)) with [lenN ascii_READY]. cbn [app rfc_command_body].
  change (lenN ascii_READY =? 0) with false. cbn [orb].
  set (md := flat_map prop_bytes props).
  change (82 :: 69 :: 65 :: 68 :: 89 :: md) with (ascii_READY ++ md).
  rewrite lenN_app. destruct (N.ltb_spec (lenN ascii_READY + lenN md) (lenN ascii_READY)); [lia|].
  rewrite firstnN_app_exact, skipnN_app_exact.
  change (forallb is_alpha ascii_READY) with true. cbn [negb].
  subst md. rewrite rfc_metadata_encode; [reflexivity|assumption|].
  rewrite app_length. pose proof (flat_map_prop_bytes_length props). lia.
Qed.

Lemma rfc_frame_command body rest : lenN body < 2 ^ 64 ->
  rfc_frame (encode_command body ++ rest) =
    Some ({| wf_cmd := true; wf_long := 255 <? lenN body; wf_more := false; wf_body := body |}, rest).
Proof.
  intros Hl. unfold encode_command.
  change Gen.cmd_short_max with 255. change Gen.cmd_flag_long with 6. change Gen.cmd_flag_short with 4.
  change (N.to_nat Gen.cmd_long_width) with 8%nat.
  destruct (N.ltb_spec 255 (lenN body)) as [Hs|Hs].
  - cbn [app rfc_frame rfc_flags]. rewrite <- app_assoc.
    assert (Hlen : lenN (be 8 (lenN body) ++ body ++ rest) <? 8 = false).
    { rewrite lenN_app. unfold lenN at 1. rewrite be_length.
      destruct (N.ltb_spec (N.of_nat 8 + lenN (body ++ rest)) 8); [lia|reflexivity]. }
    rewrite Hlen.
    rewrite (firstn_app_exact (be 8 (lenN body)) (body ++ rest) 8) by (rewrite be_length; reflexivity).
    rewrite (skipn_app_exact (be 8 (lenN body)) (body ++ rest) 8) by (rewrite be_length; reflexivity).
    rewrite of_be_be by (change (256 ^ N.of_nat 8) with (2 ^ 64); assumption).
    rewrite lenN_app. destruct (N.ltb_spec (lenN body + lenN rest) (lenN body)); [lia|].
    rewrite firstnN_app_exact, skipnN_app_exact. reflexivity.
  - rewrite be_1 by lia. cbn [app rfc_frame rfc_flags].
    rewrite lenN_app. destruct (N.ltb_spec (lenN body + lenN rest) (lenN body)); [lia|].
    rewrite firstnN_app_exact, skipnN_app_exact. reflexivity.
Qed.

Theorem ready_is_rfc props : Forall prop_ok props -> lenN (ready_body props) < 2 ^ 64 ->
  rfc_command (encode_ready props) = Some (ascii_READY, props).
Proof.
  intros Hp Hl. unfold rfc_command, encode_ready.
  rewrite <- (app_nil_r (encode_command (ready_body props))).
  rewrite rfc_frame_command by assumption.
  cbn [wf_cmd andb]. unfold rfc_minimal_size. cbn [wf_long wf_body]. rewrite eqb_reflx.
  apply rfc_command_body_ready. assumption.
Qed.

(** READY as the library builds it: Socket-Type and, when configured, Identity, in any order. *)
Lemma stype_name_ok s : prop_ok (ascii_Socket_Type, stype_name s).
Proof. destruct s; unfold prop_ok; repeat split; try (vm_compute; congruence). Qed.

Lemma identity_prop_ok i : lenN i <= 255 -> prop_ok (ascii_Identity, i).
Proof.
  intros H. unfold prop_ok. split; [|split; [|split]].
  - change (lenN ascii_Identity) with 8. lia.
  - change (lenN ascii_Identity) with 8. lia.
  - reflexivity.
  - assert (255 < 2 ^ 32) by reflexivity. lia.
Qed.

Lemma prop_bytes_len k v : lenN (prop_bytes (k, v)) = 5 + lenN k + lenN v.
Proof.
  unfold prop_bytes. rewrite !lenN_app.
  change (N.to_nat Gen.cmd_nlen_width) with 1%nat. change (N.to_nat Gen.cmd_vlen_width) with 4%nat.
  rewrite !lenN_be. lia.
Qed.

Lemma ready_body_len_bound props : Forall (fun kv => lenN (fst kv) <= 255 /\ lenN (snd kv) <= 255) props ->
  (length props <= 2)%nat -> lenN (ready_body props) < 2 ^ 64.
Proof.
  intros Hall Hn. unfold ready_body. rewrite !lenN_app.
  change (lenN (be 1 (lenN ascii_READY))) with 1. change (lenN ascii_READY) with 5.
  assert (Hpow : 2000 < 2 ^ 64) by reflexivity.
  assert (Hb : lenN (flat_map prop_bytes props) <= 1200); [|lia].
  destruct props as [|[k1 v1] [|[k2 v2] [|? ?]]]; cbn [length] in Hn; try lia.
  - cbn. lia.
  - inversion Hall as [|? ? H1 H2]; subst. cbn [fst snd] in H1.
    cbn [flat_map]. rewrite app_nil_r, prop_bytes_len. lia.
  - inversion Hall as [|? ? H1 H2]; subst. inversion H2 as [|? ? H3 H4]; subst. cbn [fst snd] in H1, H3.
    cbn [flat_map]. rewrite app_nil_r, lenN_app, !prop_bytes_len. lia.
Qed.

From Coq Require Import Permutation.

Lemma Forall_perm {A} (P : A -> Prop) l l' : Permutation l' l -> Forall P l -> Forall P l'.
Proof.
  intros Hp H. apply Forall_forall. intros x Hx. rewrite Forall_forall in H. apply H.
  eapply Permutation_in; eassumption.
Qed.

Definition id_ok (idopt : option bytes) : Prop :=
  match idopt with Some i => lenN i <= 255 | None => True end.

Theorem ready_lib_is_rfc st idopt props' :
  Permutation props' (ready_props st idopt) -> id_ok idopt ->
  rfc_command (encode_ready props') = Some (ascii_READY, props').
Proof.
  intros Hperm Hid.
  assert (Hok : Forall prop_ok (ready_props st idopt)).
  { unfold ready_props. constructor; [apply stype_name_ok|].
    destruct idopt as [i|]; [constructor; [apply identity_prop_ok; exact Hid|constructor]|constructor]. }
  assert (Hlen : Forall (fun kv => lenN (fst kv) <= 255 /\ lenN (snd kv) <= 255) (ready_props st idopt)).
  { unfold ready_props. constructor.
    - cbn [fst snd]. destruct st; vm_compute; split; congruence.
    - destruct idopt as [i|]; [constructor; [|constructor]|constructor].
      cbn [fst snd]. split; [vm_compute; congruence|exact Hid]. }
  apply ready_is_rfc.
  - exact (Forall_perm _ _ _ Hperm Hok).
  - apply ready_body_len_bound.
    + exact (Forall_perm _ _ _ Hperm Hlen).
    + pose proof (Permutation_length Hperm) as Hl. unfold ready_props in Hl. destruct idopt; simpl in Hl; unfold bytes in *; lia.
Qed.

(** Non-vacuity: a 3-frame message with lengths 0, 255, 256 is well-formed and encodes to 524 bytes. *)
Example wf_example :
  let m := [[]; repeat 7 255; repeat 9 256] in
  wf_msg m /\ length (encode_frames m) = 524%nat /\ rfc_message (encode_frames m) = Some (m, []).
Proof.
  cbv zeta. split; [|split].
  - split; [congruence|]. repeat constructor; vm_compute; congruence.
  - vm_compute. reflexivity.
  - vm_compute. reflexivity.
Qed.
