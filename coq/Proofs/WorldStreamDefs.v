(** C05 / C06 at the level of the whole socket model: definitions for the per-connection stream theorems. *)
From Coq Require Import List Arith NArith Lia Bool.
From ZV Require Import Base.Bytes Base.Res Model.Codec Model.World.
Import ListNotations.
Open Scope N_scope.

(** events at the level of the fair queue inside a socket: bytes arrive / the peer closes / the socket's
    recv takes the next item (and, exactly as [recv_fq] does for every socket type, disconnects the
    peer when the item is an error) *)
Inductive wev := WFeed (k : N) (b : bytes) | WEof (k : N) | WNext.

Definition next_fuel (w : world) : nat := (S (length (w_heap w)) + length (w_conns w) + 2)%nat.

Definition wstep (w : world) (e : wev) : option (N * out) * world :=
  match e with
  | WFeed k b => (None, do_feed w k b)
  | WEof k => (None, do_eof w k)
  | WNext =>
    match fq_next (next_fuel w) w with
    | (FItem k (OItem i), w') => (Some (k, OItem i), w')
    | (FItem k o, w') => (Some (k, o), peer_disconnected w' k)
    | (FPending, w') => (None, w')
    end
  end.

Fixpoint wrun (w : world) (es : list wev) : list (option (N * out)) * world :=
  match es with
  | [] => ([], w)
  | e :: t => let '(r, w1) := wstep w e in let '(rs, w2) := wrun w1 t in (r :: rs, w2)
  end.

(** items handed out for connection k, in order *)
Fixpoint outs_of (k : N) (rs : list (option (N * out))) : list out :=
  match rs with
  | [] => []
  | Some (k', o) :: t => if k' =? k then o :: outs_of k t else outs_of k t
  | None :: t => outs_of k t
  end.

(** what connection k's peer did: the non-empty chunks it wrote before closing, and whether it closed *)
Fixpoint chunks_of (k : N) (es : list wev) : list bytes :=
  match es with
  | [] => []
  | WFeed k' b :: t => if (k' =? k) && negb (is_nil b) then b :: chunks_of k t else chunks_of k t
  | WEof k' :: t => if k' =? k then [] else chunks_of k t
  | WNext :: t => chunks_of k t
  end.
Fixpoint closed_of (k : N) (es : list wev) : bool :=
  match es with
  | [] => false
  | WEof k' :: t => if k' =? k then true else closed_of k t
  | _ :: t => closed_of k t
  end.

(** the reader of a connection whose handshake is done *)
Definition reader_pg : reader := {| rd_dec := dec_post_greeting; rd_buf := []; rd_stop := false |}.

(** the declarative reading: everything FramedRead yields for those chunks (stopping at the first
    error), plus the error for a close in the middle of a frame; a clean end of stream yields nothing *)
Definition expected (chunks : list bytes) (closed : bool) : list out :=
  let '(os, r) := feed_all reader_pg chunks in
  if closed then os ++ match feed_eof r with [OEnd] => [] | l => l end else os.

Definition is_prefix_of {A} (a b : list A) : Prop := exists rest, b = a ++ rest.

(** a socket of type t with the connections cs attached (distinct names), nothing else done *)
Definition attached (t : stype) (cs : list N) : world :=
  fold_left (fun w c => do_attach w c None) cs (world0 t).
