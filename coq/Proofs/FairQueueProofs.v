From ZV Require Import Base.Bytes Model.FairQueue.

Definition reachable (q : fq) : Prop := exists b ls, fst (run (fq0 b) ls) = q.
Definition checked_out (q : fq) : option N :=
  match f_pc q with Out ev => Some (snd ev) | Polled ev _ => Some (snd ev) | _ => None end.
Definition has_claim (q : fq) (k : N) : Prop := (exists p, In (p, k) (f_heap q)) \/ s_reg (the_src q k) <> None.
Definition in_flight (q : fq) (k : N) : list N :=
  match f_pc q with Polled ev (QSome x) => if snd ev =? k then [x] else [] | _ => [] end.
Fixpoint arrived (k : N) (ls : list label) : list N :=
  match ls with [] => [] | LArrive k' x :: t => if k' =? k then x :: arrived k t else arrived k t | _ :: t => arrived k t end.
Fixpoint delivered (k : N) (es : list event) : list N :=
  match es with [] => [] | EReady k' x :: t => if k' =? k then x :: delivered k t else delivered k t | _ :: t => delivered k t end.

(** Proofs about the fair-queue transition system (Model/FairQueue.v). Stdlib only. *)
From Coq Require Import ZifyN ZifyNat ZifyBool.

Arguments N.add : simpl never.
Arguments N.eqb : simpl never.
Arguments N.ltb : simpl never.
Arguments N.leb : simpl never.

(** * Basic lemmas on the store of stream objects *)

Definition src_of (l : list (N * src)) (k : N) : src :=
  match get_src k l with Some s => s | None => src0 end.

Lemma the_src_eq : forall q k, the_src q k = src_of (f_srcs q) k.
Proof. reflexivity. Qed.

Lemma get_put_same : forall k s l, get_src k (put_src k s l) = Some s.
Proof.
  induction l as [|[k' s'] t IH]; cbn [put_src get_src].
  - rewrite N.eqb_refl; auto.
  - destruct (k' =? k) eqn:E; cbn [get_src].
    + rewrite N.eqb_refl; auto.
    + rewrite E; auto.
Qed.

Lemma get_put_other : forall k k' s l, k' <> k -> get_src k' (put_src k s l) = get_src k' l.
Proof.
  induction l as [|[k2 s2] t IH]; intros; cbn [put_src get_src].
  - destruct (k =? k') eqn:E; auto. apply N.eqb_eq in E; congruence.
  - destruct (k2 =? k) eqn:E; cbn [get_src].
    + apply N.eqb_eq in E; subst. destruct (k =? k') eqn:E2; auto.
      apply N.eqb_eq in E2; congruence.
    + rewrite IH by auto. reflexivity.
Qed.

Lemma src_of_put_same : forall k s l, src_of (put_src k s l) k = s.
Proof. intros; unfold src_of; rewrite get_put_same; auto. Qed.

Lemma src_of_put_other : forall k k' s l, k' <> k -> src_of (put_src k s l) k' = src_of l k'.
Proof. intros; unfold src_of; rewrite get_put_other; auto. Qed.

Lemma src_of_put : forall k k' s l,
  src_of (put_src k s l) k' = if k =? k' then s else src_of l k'.
Proof.
  intros. destruct (k =? k') eqn:E.
  - apply N.eqb_eq in E; subst. apply src_of_put_same.
  - apply N.eqb_neq in E. apply src_of_put_other; congruence.
Qed.

Lemma src_of_insert : forall k k' l,
  src_of (match get_src k l with Some _ => l | None => put_src k src0 l end) k' = src_of l k'.
Proof.
  intros. destruct (get_src k l) eqn:E; auto.
  rewrite src_of_put. destruct (k =? k') eqn:E2; auto.
  apply N.eqb_eq in E2; subst. unfold src_of; rewrite E; auto.
Qed.

(** projections through [wake_receiver] *)
Lemma wr_heap : forall q t, f_heap (wake_receiver q t) = f_heap q.
Proof. intros; unfold wake_receiver; destruct (f_rwaker q); auto. Qed.
Lemma wr_streams : forall q t, f_streams (wake_receiver q t) = f_streams q.
Proof. intros; unfold wake_receiver; destruct (f_rwaker q); auto. Qed.
Lemma wr_srcs : forall q t, f_srcs (wake_receiver q t) = f_srcs q.
Proof. intros; unfold wake_receiver; destruct (f_rwaker q); auto. Qed.
Lemma wr_pc : forall q t, f_pc (wake_receiver q t) = f_pc q.
Proof. intros; unfold wake_receiver; destruct (f_rwaker q); auto. Qed.
Lemma wr_parked : forall q t, f_parked (wake_receiver q t) = f_parked q.
Proof. intros; unfold wake_receiver; destruct (f_rwaker q); auto. Qed.
Lemma wr_counter : forall q t, f_counter (wake_receiver q t) = f_counter q.
Proof. intros; unfold wake_receiver; destruct (f_rwaker q); auto. Qed.
Lemma wr_block : forall q t, f_block (wake_receiver q t) = f_block q.
Proof. intros; unfold wake_receiver; destruct (f_rwaker q); auto. Qed.
Lemma wr_woken : forall q t, f_woken (wake_receiver q t) = if f_rwaker q then true else f_woken q.
Proof. intros; unfold wake_receiver; destruct (f_rwaker q); auto. Qed.
Lemma wr_rwaker : forall q t, f_rwaker (wake_receiver q t) = if f_rwaker q then negb t else false.
Proof. intros; unfold wake_receiver; destruct (f_rwaker q) eqn:E; auto. Qed.

Ltac proj := cbn [fst snd f_counter f_heap f_streams f_srcs f_rwaker f_pc f_parked f_woken f_wakes f_block set_fq].
Ltac proj_in H := cbn [fst snd f_counter f_heap f_streams f_srcs f_rwaker f_pc f_parked f_woken f_wakes f_block set_fq] in H.
Ltac wr := repeat (rewrite ?wr_heap, ?wr_streams, ?wr_srcs, ?wr_pc, ?wr_parked, ?wr_counter, ?wr_block; proj).

(** [run] composes *)
Lemma run_app : forall l1 l2 q,
  run q (l1 ++ l2) =
  let '(q1, e1) := run q l1 in let '(q2, e2) := run q1 l2 in (q2, e1 ++ e2).
Proof.
  induction l1 as [|l t IH]; intros; cbn [run app].
  - destruct (run q l2); auto.
  - destruct (step q l) as [q1 e1]. rewrite IH.
    destruct (run q1 t) as [q2 e2]. destruct (run q2 l2) as [q3 e3].
    rewrite app_assoc; auto.
Qed.

Lemma run_snoc_fst : forall ls l q, fst (run q (ls ++ [l])) = fst (step (fst (run q ls)) l).
Proof.
  intros. rewrite run_app. destruct (run q ls) as [q1 e1]. cbn [run fst].
  destruct (step q1 l) as [q2 e2]; auto.
Qed.

Lemma run_cons_fst : forall ls l q, fst (run q (l :: ls)) = fst (run (fst (step q l)) ls).
Proof.
  intros. cbn [run]. destruct (step q l) as [q1 e1]. cbn [fst]. destruct (run q1 ls); auto.
Qed.

(** generic invariant principle *)
Lemma run_invariant : forall (P : fq -> Prop),
  (forall q l, P q -> P (fst (step q l))) ->
  forall ls q, P q -> P (fst (run q ls)).
Proof.
  intros P Hs. induction ls as [|l t IH]; intros; auto.
  rewrite run_cons_fst. apply IH. apply Hs; auto.
Qed.

Lemma reachable_invariant : forall (P : fq -> Prop),
  (forall b, P (fq0 b)) ->
  (forall q l, P q -> P (fst (step q l))) ->
  forall q, reachable q -> P q.
Proof.
  intros P H0 Hs q [b [ls <-]]. apply run_invariant; auto.
Qed.

(** the program counter after [LWake k _] fired a kept registration: if that registration was made by the
    stream poll in progress, that poll's waker has fired *)
Definition wake_pc (p : pc) (k : N) : pc :=
  match p with
  | Polled ev0 QPending => if snd ev0 =? k then Polled ev0 QYield else p
  | _ => p
  end.

Lemma step_LWake : forall q k consume,
  step q (LWake k consume) =
  match s_reg (the_src q k) with
  | Some ev =>
    (wake_receiver (set_fq q (f_counter q) (heap_insert ev (f_heap q)) (f_streams q)
       (if consume then put_src k {| s_items := s_items (the_src q k); s_closed := s_closed (the_src q k); s_reg := None |} (f_srcs q)
        else f_srcs q)
       (f_rwaker q) (wake_pc (f_pc q) k) (f_parked q) (f_woken q) (f_wakes q)) true, [])
  | None => (q, [])
  end.
Proof. reflexivity. Qed.

Ltac wake_cases q k :=
  unfold wake_pc;
  destruct (f_pc q) as [| |?ev|?ev [?x| | |]] eqn:?Epc;
  try (destruct (snd _ =? k) eqn:?Ewk).

(** * A. exactly once, in order *)

Lemma delivered_app : forall k a b, delivered k (a ++ b) = delivered k a ++ delivered k b.
Proof.
  induction a as [|e t IH]; intros; auto. cbn [app delivered].
  destruct e; auto. destruct (k0 =? k); rewrite IH; auto.
Qed.

Lemma step_exactly_once : forall q l q' e k,
  step q l = (q', e) ->
  delivered k e ++ in_flight q' k ++ s_items (the_src q' k) =
  (in_flight q k ++ s_items (the_src q k)) ++ arrived k [l].
Proof.
  intros q l q' e k H. rewrite !the_src_eq. unfold in_flight.
  destruct l; unfold step in H; cbn [arrived].
  - (* LStart *)
    destruct (f_pc q) eqn:Epc; inversion H; subst; clear H; proj; rewrite ?Epc, ?app_nil_r; auto.
  - (* LR1 *)
    destruct (f_pc q) eqn:Epc; try (inversion H; subst; clear H; proj; rewrite ?Epc, ?app_nil_r; auto; fail).
    destruct (f_heap q) as [|ev h'].
    + destruct (negb (is_nilN (f_streams q)) || f_block q); inversion H; subst; proj; rewrite ?app_nil_r; auto.
    + destruct (memN (snd ev) (f_streams q)); inversion H; subst; proj; rewrite ?app_nil_r; auto.
  - (* LR2 *)
    destruct (f_pc q) eqn:Epc; try (inversion H; subst; clear H; proj; rewrite ?Epc, ?app_nil_r; auto; fail).
    rewrite the_src_eq in H.
    destruct (s_items (src_of (f_srcs q) (snd ev))) as [|x rest] eqn:Ei.
    + destruct (s_closed (src_of (f_srcs q) (snd ev))) eqn:Ec; inversion H; subst; clear H; proj;
        rewrite ?app_nil_r; auto.
      rewrite src_of_put. destruct (snd ev =? k) eqn:Ek; auto.
      apply N.eqb_eq in Ek; subst. rewrite Ei; auto.
    + inversion H; subst; clear H; proj. rewrite app_nil_r, src_of_put.
      destruct (snd ev =? k) eqn:Ek; auto.
      apply N.eqb_eq in Ek; subst. rewrite Ei; auto.
  - (* LR2Y *)
    destruct (f_pc q) eqn:Epc; inversion H; subst; clear H; wr; rewrite ?Epc, ?app_nil_r; auto.
  - (* LR3 *)
    destruct (f_pc q) eqn:Epc; try (inversion H; subst; clear H; proj; rewrite ?Epc, ?app_nil_r; auto; fail).
    destruct r; inversion H; subst; clear H; proj; rewrite ?app_nil_r; auto.
  - (* LWake *)
    fold (step q (LWake k0 consume)) in H. rewrite step_LWake, the_src_eq in H.
    destruct (s_reg (src_of (f_srcs q) k0)) eqn:Er; inversion H; subst; clear H; wr;
      rewrite ?app_nil_r; auto.
    assert (Hfl : match wake_pc (f_pc q) k0 with Polled ev (QSome x) => if snd ev =? k then [x] else [] | _ => [] end =
                  match f_pc q with Polled ev (QSome x) => if snd ev =? k then [x] else [] | _ => [] end)
      by (wake_cases q k0; auto).
    rewrite Hfl. cbn [delivered app]. f_equal.
    destruct consume; auto. rewrite src_of_put.
    destruct (k0 =? k) eqn:Ek; auto. apply N.eqb_eq in Ek; subst; auto.
  - (* LInsert *)
    inversion H; subst; clear H; wr. rewrite src_of_insert, app_nil_r; auto.
  - (* LRemove *)
    inversion H; subst; clear H; proj. rewrite app_nil_r; auto.
  - (* LArrive *)
    inversion H; subst; clear H; proj. rewrite the_src_eq, src_of_put.
    destruct (k0 =? k) eqn:Ek; proj.
    + apply N.eqb_eq in Ek; subst. cbn [delivered app s_items]. rewrite app_assoc; auto.
    + rewrite app_nil_r; auto.
  - (* LClose *)
    inversion H; subst; clear H; proj. rewrite the_src_eq, src_of_put, app_nil_r.
    destruct (k0 =? k) eqn:Ek; auto. apply N.eqb_eq in Ek; subst; auto.
  - (* LYield *)
    inversion H; subst; clear H. rewrite app_nil_r; auto.
Qed.

Lemma arrived_cons : forall k l t, arrived k (l :: t) = arrived k [l] ++ arrived k t.
Proof.
  intros. destruct l; cbn [arrived]; auto. destruct (k0 =? k); auto.
Qed.

Lemma run_exactly_once : forall ls q q' es k,
  run q ls = (q', es) ->
  delivered k es ++ in_flight q' k ++ s_items (the_src q' k) =
  (in_flight q k ++ s_items (the_src q k)) ++ arrived k ls.
Proof.
  induction ls as [|l t IH]; intros q q' es k H.
  - cbn in H. inversion H; subst. cbn [delivered arrived app]. rewrite app_nil_r; auto.
  - cbn [run] in H. destruct (step q l) as [q1 e1] eqn:Es. destruct (run q1 t) as [q2 e2] eqn:Er.
    inversion H; subst; clear H.
    rewrite delivered_app, <- app_assoc, (IH _ _ _ k Er).
    rewrite (arrived_cons k l t). rewrite !app_assoc. f_equal.
    rewrite <- (step_exactly_once _ _ _ _ k Es). rewrite !app_assoc; auto.
Qed.

Theorem fq_exactly_once_in_order : forall b ls q es k,
  run (fq0 b) ls = (q, es) ->
  delivered k es ++ in_flight q k ++ s_items (the_src q k) = arrived k ls.
Proof.
  intros. rewrite (run_exactly_once _ _ _ _ k H). reflexivity.
Qed.

(** * Lists: heap_insert, delN, memN *)

Lemma heap_insert_In : forall e e' h, In e (heap_insert e' h) <-> e = e' \/ In e h.
Proof.
  induction h as [|x t IH]; cbn [heap_insert].
  - cbn [In]. intuition congruence.
  - destruct (fst e' <? fst x); cbn [In]; rewrite ?IH; intuition congruence.
Qed.

Lemma delN_In : forall k k' l, In k (delN k' l) <-> In k l /\ k <> k'.
Proof.
  intros. unfold delN. rewrite filter_In.
  destruct (k =? k') eqn:E; cbn [negb].
  - apply N.eqb_eq in E. intuition congruence.
  - apply N.eqb_neq in E. intuition congruence.
Qed.

Lemma memN_In : forall k l, memN k l = true <-> In k l.
Proof.
  intros. unfold memN. rewrite existsb_exists. split.
  - intros [x [Hx E]]. apply N.eqb_eq in E; subst; auto.
  - intros. exists k. rewrite N.eqb_refl; auto.
Qed.

Ltac step_cases q :=
  unfold step;
  repeat match goal with
  | |- context [match f_pc q with _ => _ end] => destruct (f_pc q) eqn:?Epc
  | |- context [match f_heap q with _ => _ end] => destruct (f_heap q) eqn:?Eh
  | |- context [match ?r with QSome _ => _ | _ => _ end] => destruct r
  | |- context [match s_items ?s with _ => _ end] => destruct (s_items s) eqn:?Ei
  | |- context [match s_reg ?s with _ => _ end] => destruct (s_reg s) eqn:?Er
  | |- context [if ?c then _ else _] => destruct c eqn:?Ec
  end.

(** * registrations carry their own key *)
Definition reg_key (q : fq) : Prop := forall k ev, s_reg (the_src q k) = Some ev -> snd ev = k.

Lemma reg_key_step : forall q l, reg_key q -> reg_key (fst (step q l)).
Proof.
  intros q l I k' ev'. 
  destruct l; step_cases q; proj; auto; rewrite !the_src_eq in *; wr;
    rewrite ?src_of_insert, ?src_of_put; try (apply I; fail).
  all: try (match goal with |- context [if ?a =? ?b then _ else _] => destruct (a =? b) eqn:Ek end;
            [apply N.eqb_eq in Ek; subst; cbn [s_reg] | ]; try (apply I; fail)).
  all: try congruence.
  all: cbn [s_reg src0]; congruence.
Qed.

(** * B. the claim invariant *)
Definition claim (h : list (N * N)) (srcs : list (N * src)) (k : N) : Prop :=
  (exists p, In (p, k) h) \/ s_reg (src_of srcs k) <> None.

Lemma has_claim_eq : forall q k, has_claim q k = claim (f_heap q) (f_srcs q) k.
Proof. reflexivity. Qed.

Lemma claim_heap_insert : forall h s k e, claim h s k -> claim (heap_insert e h) s k.
Proof.
  intros h s k e [[p Hp]|H]; [left|right; auto].
  exists p. apply heap_insert_In; auto.
Qed.

Lemma claim_heap_new : forall h s k p, claim (heap_insert (p, k) h) s k.
Proof. intros. left. exists p. apply heap_insert_In; auto. Qed.

Lemma claim_put_keep : forall h s k k0 new,
  s_reg new = s_reg (src_of s k0) -> claim h s k -> claim h (put_src k0 new s) k.
Proof.
  intros h s k k0 new E [Hp|H]; [left; auto|right].
  rewrite src_of_put. destruct (k0 =? k) eqn:Ek; auto.
  apply N.eqb_eq in Ek; subst. congruence.
Qed.

Lemma claim_insert_srcs : forall h s k k0,
  claim h s k -> claim h (match get_src k0 s with Some _ => s | None => put_src k0 src0 s end) k.
Proof.
  intros h s k k0 [Hp|H]; [left; auto|right]. rewrite src_of_insert; auto.
Qed.

Lemma claim_pop : forall ev h s k, claim (ev :: h) s k -> k <> snd ev -> claim h s k.
Proof.
  intros ev h s k [[p [Hp|Hp]]|H] Hk; [|left; exists p; auto|right; auto].
  subst ev. cbn [snd] in Hk. congruence.
Qed.

Lemma claim_reg : forall h s k new, s_reg new <> None -> claim h (put_src k new s) k.
Proof. intros. right. rewrite src_of_put_same; auto. Qed.

Lemma claim_wake : forall h s k k' ev new,
  s_reg (src_of s k) = Some ev -> snd ev = k ->
  claim h s k' -> claim (heap_insert ev h) (put_src k new s) k'.
Proof.
  intros h s k k' ev new Er Ek [[p Hp]|H].
  - left. exists p. apply heap_insert_In; auto.
  - destruct (N.eq_dec k k') as [->|Hne].
    + left. exists (fst ev). apply heap_insert_In. left. destruct ev; cbn [fst snd] in *; congruence.
    + right. rewrite src_of_put_other; auto.
Qed.

Definition InvB (q : fq) : Prop :=
  (forall k, In k (f_streams q) -> has_claim q k) /\
  (forall ev, f_pc q = Polled ev QPending \/ f_pc q = Polled ev QYield -> has_claim q (snd ev)).

Ltac nopol := let e := fresh "E" in intros ? [e|e]; discriminate e.

Lemma InvB_step : forall q l, reg_key q -> InvB q -> InvB (fst (step q l)).
Proof.
  intros q l RK [I1 I2]. unfold InvB. setoid_rewrite has_claim_eq.
  setoid_rewrite has_claim_eq in I1. setoid_rewrite has_claim_eq in I2.
  destruct l; unfold step.
  - (* LStart *)
    destruct (f_pc q) eqn:Epc; proj; rewrite ?Epc; auto.
    split; auto. nopol.
  - (* LR1 *)
    destruct (f_pc q) eqn:Epc; proj; rewrite ?Epc; auto.
    destruct (f_heap q) as [|ev h'] eqn:Eh.
    + destruct (negb (is_nilN (f_streams q)) || f_block q); proj; (split; [auto|nopol]).
    + destruct (memN (snd ev) (f_streams q)) eqn:Em; proj; (split; [|nopol]).
      * intros k Hk. apply delN_In in Hk. destruct Hk. eapply claim_pop; eauto.
      * intros k Hk. eapply claim_pop; eauto. intros ->. apply memN_In in Hk. congruence.
  - (* LR2 *)
    destruct (f_pc q) eqn:Epc; proj; rewrite ?Epc; auto.
    rewrite the_src_eq.
    destruct (s_items (src_of (f_srcs q) (snd ev))) eqn:Ei.
    + destruct (s_closed (src_of (f_srcs q) (snd ev))) eqn:Ec; proj.
      * split; [auto|nopol].
      * split.
        -- intros k Hk. destruct (N.eq_dec k (snd ev)) as [->|Hne].
           ++ apply claim_reg. cbn [s_reg]. discriminate.
           ++ destruct (I1 k Hk) as [Hp|H]; [left; auto|right].
              rewrite src_of_put_other; auto.
        -- intros ev' [E|E]; inversion E; subst. apply claim_reg. cbn [s_reg]. discriminate.
    + proj. split; [|nopol]. intros k Hk. apply claim_put_keep; auto.
  - (* LR2Y *)
    destruct (f_pc q) eqn:Epc; wr; rewrite ?Epc; auto.
    split.
    + intros k Hk. apply claim_heap_insert; auto.
    + intros ev' [E|E]; inversion E; subst. destruct ev' as [p' k']. apply claim_heap_new.
  - (* LR3 *)
    destruct (f_pc q) eqn:Epc; proj; rewrite ?Epc; auto.
    destruct r; proj; (split; [|nopol]).
    + intros k Hk. apply in_app_or in Hk. destruct Hk as [Hk|[<-|[]]].
      * apply claim_heap_insert; auto.
      * apply claim_heap_new.
    + auto.
    + intros k Hk. apply in_app_or in Hk. destruct Hk as [Hk|[<-|[]]]; auto.
    + intros k Hk. apply in_app_or in Hk. destruct Hk as [Hk|[<-|[]]]; auto.
  - (* LWake *)
    fold (step q (LWake k consume)). rewrite step_LWake, the_src_eq.
    destruct (s_reg (src_of (f_srcs q) k)) as [ev|] eqn:Er; proj; auto.
    wr. assert (Ek : snd ev = k) by (apply RK; rewrite the_src_eq; auto).
    assert (Hpc : forall ev', wake_pc (f_pc q) k = Polled ev' QPending \/ wake_pc (f_pc q) k = Polled ev' QYield ->
                  f_pc q = Polled ev' QPending \/ f_pc q = Polled ev' QYield).
    { intros ev'. wake_cases q k; intros [E|E]; try discriminate; inversion E; subst; auto. }
    destruct consume.
    + split; intros; eapply claim_wake; eauto.
    + split; intros; apply claim_heap_insert; auto.
  - (* LInsert *)
    wr. split.
    + intros k' Hk. apply claim_insert_srcs.
      destruct (memN k (f_streams q)) eqn:Em.
      * apply claim_heap_insert; auto.
      * apply in_app_or in Hk. destruct Hk as [Hk|[<-|[]]].
        -- apply claim_heap_insert; auto.
        -- apply claim_heap_new.
    + intros. apply claim_insert_srcs, claim_heap_insert; auto.
  - (* LRemove *)
    proj. split; auto. intros k' Hk. apply delN_In in Hk. destruct Hk; auto.
  - (* LArrive *)
    proj. rewrite the_src_eq. split; intros; apply claim_put_keep; auto.
  - (* LClose *)
    proj. rewrite the_src_eq. split; intros; apply claim_put_keep; auto.
  - (* LYield *)
    proj. split; auto.
Qed.

Lemma reg_key_reachable : forall q, reachable q -> reg_key q.
Proof.
  apply reachable_invariant.
  - intros b k ev. cbn. discriminate.
  - apply reg_key_step.
Qed.

Lemma InvB_reachable : forall q, reachable q -> reg_key q /\ InvB q.
Proof.
  apply reachable_invariant.
  - intros b. split.
    + intros k ev. cbn. discriminate.
    + split; cbn; [intros; contradiction|nopol].
  - intros q l [RK IB]. split; [apply reg_key_step | apply InvB_step]; auto.
Qed.

Theorem fq_claim_invariant : forall q, reachable q -> forall k, In k (f_streams q) -> has_claim q k.
Proof. intros q R. apply (InvB_reachable q R). Qed.

(** * C, E. parked invariants *)
(** while a stream is checked out, the receiver's waker is stored or has been invoked during this call *)
Definition busy (p : pc) : bool := match p with Out _ | Polled _ _ => true | _ => false end.

Definition InvP (q : fq) : Prop :=
  (f_parked q = true -> f_pc q = Idle) /\
  (f_parked q = true -> f_woken q = false -> f_heap q = [] /\ f_rwaker q = true) /\
  (busy (f_pc q) = true -> f_woken q = false -> f_rwaker q = true) /\
  (forall ev, f_pc q = Polled ev QYield -> f_woken q = true).

Lemma InvP_step : forall q l, InvP q -> InvP (fst (step q l)).
Proof.
  intros q l (I1 & I2 & I3 & I4). unfold InvP.
  destruct l; unfold step.
  - (* LStart *)
    destruct (f_pc q) eqn:Epc; proj; rewrite ?Epc; auto. repeat split; try discriminate.
  - (* LR1 *)
    destruct (f_pc q) eqn:Epc; proj; rewrite ?Epc; auto.
    destruct (f_heap q) as [|ev h'] eqn:Eh.
    + destruct (negb (is_nilN (f_streams q)) || f_block q); proj; repeat split; auto; discriminate.
    + destruct (memN (snd ev) (f_streams q)); proj; repeat split; auto; discriminate.
  - (* LR2 *)
    destruct (f_pc q) eqn:Epc; proj; rewrite ?Epc; auto.
    assert (f_parked q = false) by (destruct (f_parked q); auto; specialize (I1 eq_refl); discriminate).
    destruct (s_items (the_src q (snd ev))); [destruct (s_closed (the_src q (snd ev)))|]; proj;
      repeat split; try congruence; auto; discriminate.
  - (* LR2Y *)
    destruct (f_pc q) eqn:Epc; proj; rewrite ?Epc; auto.
    assert (f_parked q = false) by (destruct (f_parked q); auto; specialize (I1 eq_refl); discriminate).
    rewrite wr_parked, wr_pc, wr_woken, wr_heap, wr_rwaker. proj.
    repeat split; try congruence.
    + destruct (f_rwaker q) eqn:Erw; try discriminate. intros _ Hw. specialize (I3 eq_refl Hw). discriminate.
    + intros ? _. destruct (f_rwaker q) eqn:Erw; auto. destruct (f_woken q) eqn:Ew; auto.
  - (* LR3 *)
    destruct (f_pc q) eqn:Epc; proj; rewrite ?Epc; auto.
    assert (f_parked q = false) by (destruct (f_parked q); auto; specialize (I1 eq_refl); discriminate).
    destruct r; proj; repeat split; try congruence; try discriminate.
    + exfalso. rewrite (I4 _ eq_refl) in *. discriminate.
    + exfalso. rewrite (I4 _ eq_refl) in *. discriminate.
  - (* LWake *)
    fold (step q (LWake k consume)). rewrite step_LWake.
    destruct (s_reg (the_src q k)); proj; [|split; [|split; [|split]]; assumption].
    rewrite wr_parked, wr_pc, wr_woken, wr_heap, wr_rwaker. proj.
    assert (Hb : busy (wake_pc (f_pc q) k) = busy (f_pc q)) by (wake_cases q k; auto).
    rewrite Hb.
    split; [|split; [|split]].
    + intros Hp. rewrite (I1 Hp). auto.
    + intros Hp Hw. destruct (f_rwaker q) eqn:Erw; try discriminate.
      destruct (I2 Hp Hw). congruence.
    + intros Hbusy Hw. destruct (f_rwaker q) eqn:Erw; try discriminate.
      specialize (I3 Hbusy Hw). discriminate.
    + intros ev' E. destruct (f_rwaker q) eqn:Erw; auto.
      destruct (f_woken q) eqn:Ew; auto. exfalso.
      assert (Hbusy : busy (f_pc q) = true) by (rewrite <- Hb, E; auto).
      specialize (I3 Hbusy eq_refl). discriminate.
  - (* LInsert *)
    proj. rewrite wr_parked, wr_pc, wr_woken, wr_heap, wr_rwaker. proj.
    split; [|split; [|split]]; auto.
    + intros Hp Hw. destruct (f_rwaker q) eqn:Erw; try discriminate.
      destruct (I2 Hp Hw). congruence.
    + intros Hbusy Hw. destruct (f_rwaker q) eqn:Erw; try discriminate. auto.
    + intros ev' E. rewrite (I4 _ E). destruct (f_rwaker q); auto.
  - proj. split; [|split; [|split]]; assumption.
  - proj. split; [|split; [|split]]; assumption.
  - proj. split; [|split; [|split]]; assumption.
  - proj. split; [|split; [|split]]; assumption.
Qed.

Lemma InvP_reachable : forall q, reachable q -> InvP q.
Proof.
  apply reachable_invariant.
  - intros b. repeat split; cbn; discriminate.
  - apply InvP_step.
Qed.

Theorem fq_parked_is_idle : forall q, reachable q -> f_parked q = true -> f_pc q = Idle.
Proof. intros q R. apply (InvP_reachable q R). Qed.

Theorem fq_parked_invariant : forall q, reachable q ->
  f_parked q = true -> f_woken q = false -> f_heap q = [] /\ f_rwaker q = true /\ f_pc q = Idle.
Proof.
  intros q R Hp Hw. destruct (InvP_reachable q R) as (I1 & I2 & _).
  destruct (I2 Hp Hw). auto.
Qed.

Theorem fq_idle_holds_nothing : forall q, f_pc q = Idle -> checked_out q = None.
Proof. intros q H. unfold checked_out. rewrite H. reflexivity. Qed.

(** * C'. yielding stream polls
    A stream poll that wakes the waker it is polled with and returns Pending ([LR2Y]) makes poll_next return
    Pending at once (no spinning) with the stream's event queued, the stream back in the map and the
    receiver already woken (no lost wake-up). *)
Theorem yield_returns_pending : forall q ev q1 q2 es,
  f_pc q = Out ev -> step q LR2Y = (q1, []) -> step q1 LR3 = (q2, es) ->
  es = [EPending] /\ f_pc q2 = Idle /\ f_parked q2 = true /\ In ev (f_heap q2) /\ In (snd ev) (f_streams q2) /\
  (f_rwaker q = true -> f_woken q2 = true).
Proof.
  intros q ev q1 q2 es Hpc H1 H2.
  unfold step in H1. rewrite Hpc in H1. inversion H1; subst q1; clear H1.
  unfold step in H2. rewrite wr_pc in H2. proj_in H2. inversion H2; subst q2 es; clear H2.
  proj. rewrite wr_heap, wr_streams, wr_woken. proj.
  repeat split; auto.
  - apply heap_insert_In; auto.
  - apply in_or_app; right; left; auto.
  - intros ->; auto.
Qed.

(** the same when the race is the other way round: the poll returned Pending and kept a registration, and
    that registration fires before the second critical section *)
Theorem wake_during_poll_returns_pending : forall q ev ev' c q1 q2 es,
  f_pc q = Polled ev QPending -> s_reg (the_src q (snd ev)) = Some ev' ->
  step q (LWake (snd ev) c) = (q1, []) -> step q1 LR3 = (q2, es) ->
  es = [EPending] /\ f_pc q2 = Idle /\ f_parked q2 = true /\ In ev' (f_heap q2) /\ In (snd ev) (f_streams q2) /\
  (f_rwaker q = true -> f_woken q2 = true).
Proof.
  intros q ev ev' c q1 q2 es Hpc Hr H1 H2.
  rewrite step_LWake, Hr, Hpc in H1. cbn [wake_pc] in H1. rewrite N.eqb_refl in H1.
  inversion H1; subst q1; clear H1.
  unfold step in H2. rewrite wr_pc in H2. proj_in H2. inversion H2; subst q2 es; clear H2.
  proj. rewrite wr_heap, wr_streams, wr_woken. proj.
  repeat split; auto.
  - apply heap_insert_In; auto.
  - apply in_or_app; right; left; auto.
  - intros ->; auto.
Qed.

(** in every reachable state: a poll whose waker has fired has woken the receiver (or found it already
    woken during this call), so the Pending it makes poll_next return is never a parked-and-unwoken one *)
Theorem fq_yield_is_woken : forall q ev, reachable q -> f_pc q = Polled ev QYield ->
  f_woken q = true /\
  snd (step q LR3) = [EPending] /\ f_pc (fst (step q LR3)) = Idle /\
  f_parked (fst (step q LR3)) = true /\ f_woken (fst (step q LR3)) = true.
Proof.
  intros q ev R Hpc. destruct (InvP_reachable q R) as (_ & _ & _ & I4).
  specialize (I4 ev Hpc). unfold step. rewrite Hpc. proj. auto.
Qed.

(** the event of a poll whose waker has fired is in the ready heap (that is the claim the stream holds when
    it is put back); a poll that returned Pending and has not been woken holds exactly its registration *)
Definition InvY (q : fq) : Prop :=
  (forall ev, f_pc q = Polled ev QPending -> s_reg (the_src q (snd ev)) = Some ev) /\
  (forall ev, f_pc q = Polled ev QYield -> In ev (f_heap q)).

Lemma InvY_step : forall q l, InvY q -> InvY (fst (step q l)).
Proof.
  intros q l [Y1 Y2]. unfold InvY. setoid_rewrite the_src_eq. setoid_rewrite the_src_eq in Y1.
  destruct l; unfold step.
  - destruct (f_pc q) eqn:Epc; proj; rewrite ?Epc; auto. split; discriminate.
  - destruct (f_pc q) eqn:Epc; proj; rewrite ?Epc; auto.
    destruct (f_heap q) as [|ev h'] eqn:Eh.
    + destruct (negb (is_nilN (f_streams q)) || f_block q); proj; split; discriminate.
    + destruct (memN (snd ev) (f_streams q)); proj; split; discriminate.
  - destruct (f_pc q) eqn:Epc; proj; rewrite ?Epc; auto.
    rewrite the_src_eq.
    destruct (s_items (src_of (f_srcs q) (snd ev))); [destruct (s_closed (src_of (f_srcs q) (snd ev)))|]; proj;
      (split; [|discriminate]); try discriminate.
    intros ev' E. inversion E; subst. rewrite src_of_put_same. auto.
  - destruct (f_pc q) eqn:Epc; wr; rewrite ?Epc; auto.
    split; [discriminate|]. intros ev' E. inversion E; subst. apply heap_insert_In; auto.
  - destruct (f_pc q) eqn:Epc; proj; rewrite ?Epc; auto.
    destruct r; proj; split; discriminate.
  - fold (step q (LWake k consume)). rewrite step_LWake, the_src_eq.
    destruct (s_reg (src_of (f_srcs q) k)) as [ev|] eqn:Er; proj; auto.
    wr. split.
    + intros ev' E.
      assert (Epc : f_pc q = Polled ev' QPending /\ (snd ev' =? k) = false).
      { revert E. wake_cases q k; intros E; try discriminate; inversion E; subst; auto. }
      destruct Epc as [Epc Ek]. apply N.eqb_neq in Ek.
      destruct consume; auto. rewrite src_of_put_other; auto.
    + intros ev' E. apply heap_insert_In.
      revert E. wake_cases q k; intros E; try discriminate; inversion E; subst; auto.
      apply N.eqb_eq in Ewk. subst k. left. specialize (Y1 _ eq_refl). congruence.
  - proj. wr. split.
    + intros ev' E. rewrite src_of_insert; auto.
    + intros ev' E. apply heap_insert_In; auto.
  - proj. auto.
  - proj. rewrite the_src_eq. split; auto.
    intros ev' E. rewrite src_of_put. destruct (k =? snd ev') eqn:Ek; auto.
    apply N.eqb_eq in Ek; subst k. cbn [s_reg]. auto.
  - proj. rewrite the_src_eq. split; auto.
    intros ev' E. rewrite src_of_put. destruct (k =? snd ev') eqn:Ek; auto.
    apply N.eqb_eq in Ek; subst k. cbn [s_reg]. auto.
  - proj. auto.
Qed.

Theorem fq_yield_event_queued : forall q ev, reachable q -> f_pc q = Polled ev QYield -> In ev (f_heap q).
Proof.
  intros q ev R. revert ev.
  assert (Y : InvY q); [|apply Y].
  revert q R. apply reachable_invariant.
  - intros b. split; cbn; discriminate.
  - apply InvY_step.
Qed.

(** * D. no lost wake-up *)
Theorem fq_no_lost_wakeup : forall q, reachable q -> f_parked q = true -> f_woken q = false ->
  forall k, In k (f_streams q) -> src_ready (the_src q k) = true -> s_reg (the_src q k) <> None.
Proof.
  intros q R Hp Hw k Hk _.
  destruct (fq_parked_invariant q R Hp Hw) as [Hh _].
  destruct (fq_claim_invariant q R k Hk) as [[p Hin]|H]; auto.
  rewrite Hh in Hin. contradiction.
Qed.

Theorem fq_wake_wakes_receiver : forall q k c, reachable q -> f_parked q = true -> f_woken q = false ->
  s_reg (the_src q k) <> None -> f_woken (fst (step q (LWake k c))) = true /\ f_parked (fst (step q (LWake k c))) = true.
Proof.
  intros q k c R Hp Hw Hr.
  destruct (fq_parked_invariant q R Hp Hw) as [_ [Hrw _]].
  unfold step. destruct (s_reg (the_src q k)); try congruence.
  proj. rewrite wr_woken, wr_parked. proj. rewrite Hrw. auto.
Qed.

Theorem fq_insert_wakes_receiver : forall q k, reachable q -> f_parked q = true -> f_woken q = false ->
  f_woken (fst (step q (LInsert k))) = true.
Proof.
  intros q k R Hp Hw.
  destruct (fq_parked_invariant q R Hp Hw) as [_ [Hrw _]].
  unfold step. proj. rewrite wr_woken. proj. rewrite Hrw. auto.
Qed.

(** * F. no stream is lost *)
Definition InvC (q : fq) (k : N) : Prop :=
  s_closed (the_src q k) = false /\ (forall ev, f_pc q = Polled ev QNone -> snd ev <> k).
Definition held (q : fq) (k : N) : Prop := In k (f_streams q) \/ checked_out q = Some k.

Lemma F_step : forall q l k, l <> LClose k -> InvC q k ->
  InvC (fst (step q l)) k /\
  (l = LInsert k \/ (l <> LRemove k /\ held q k) -> held (fst (step q l)) k).
Proof.
  intros q l k Hnc [C1 C2]. unfold InvC, held, checked_out. rewrite !the_src_eq in *.
  assert (Hsame : InvC q k) by (split; auto).
  destruct l; unfold step.
  - (* LStart *)
    destruct (f_pc q) eqn:Epc; proj; rewrite ?Epc.
    + split; [split; [auto|discriminate]|]. intros [H|[_ [H|H]]]; try discriminate; auto.
    + split; [split; auto|]. intros [H|[_ H]]; try discriminate; auto.
    + split; [split; auto|]. intros [H|[_ H]]; try discriminate; auto.
    + split; [split; auto|]. intros [H|[_ H]]; try discriminate; auto.
  - (* LR1 *)
    destruct (f_pc q) eqn:Epc; proj; rewrite ?Epc;
      try (split; [split; auto|]; intros [H|[_ H]]; try discriminate; auto; fail).
    destruct (f_heap q) as [|ev h'] eqn:Eh.
    + destruct (negb (is_nilN (f_streams q)) || f_block q); proj;
        (split; [split; [auto|discriminate]|]; intros [H|[_ [H|H]]]; try discriminate; auto).
    + destruct (memN (snd ev) (f_streams q)) eqn:Em; proj;
        (split; [split; [auto|discriminate]|]; intros [H|[_ [H|H]]]; try discriminate; auto).
      destruct (N.eq_dec (snd ev) k) as [->|Hne]; auto.
      left. apply delN_In; split; auto.
  - (* LR2 *)
    destruct (f_pc q) eqn:Epc; proj; rewrite ?Epc;
      try (split; [split; auto|]; intros [H|[_ H]]; try discriminate; auto; fail).
    rewrite the_src_eq.
    destruct (s_items (src_of (f_srcs q) (snd ev))) eqn:Ei.
    + destruct (s_closed (src_of (f_srcs q) (snd ev))) eqn:Ec; proj.
      * split; [split; auto|]. 
        -- intros ev' E X. inversion E; subst. congruence.
        -- intros [H|[_ H]]; try discriminate; auto.
      * split; [split; [|discriminate]|].
        -- rewrite src_of_put. destruct (snd ev =? k); auto.
        -- intros [H|[_ H]]; try discriminate; auto.
    + proj. split; [split; [|discriminate]|].
      * rewrite src_of_put. destruct (snd ev =? k) eqn:E; auto. apply N.eqb_eq in E; subst; auto.
      * intros [H|[_ H]]; try discriminate; auto.
  - (* LR2Y *)
    destruct (f_pc q) eqn:Epc; wr; rewrite ?Epc;
      try (split; [split; auto|]; intros [H|[_ H]]; try discriminate; auto; fail).
    split; [split; [auto|discriminate]|]. intros [H|[_ H]]; try discriminate; auto.
  - (* LR3 *)
    destruct (f_pc q) eqn:Epc; proj; rewrite ?Epc;
      try (split; [split; auto|]; intros [H|[_ H]]; try discriminate; auto; fail).
    destruct r; proj; (split; [split; [auto|discriminate]|]); intros [H|[_ [H|H]]]; try discriminate.
    + left. apply in_or_app; auto.
    + inversion H; subst. left. apply in_or_app; right; left; auto.
    + auto.
    + inversion H. exfalso. eapply C2; eauto.
    + left. apply in_or_app; auto.
    + inversion H; subst. left. apply in_or_app; right; left; auto.
    + left. apply in_or_app; auto.
    + inversion H; subst. left. apply in_or_app; right; left; auto.
  - (* LWake *)
    fold (step q (LWake k0 consume)). rewrite step_LWake, the_src_eq.
    destruct (s_reg (src_of (f_srcs q) k0)) as [ev|] eqn:Er; proj.
    2:{ split; [split; auto|]. intros [H|[_ H]]; try discriminate; auto. }
    wr.
    assert (Hco : match wake_pc (f_pc q) k0 with Out ev => Some (snd ev) | Polled ev _ => Some (snd ev) | _ => None end =
                  match f_pc q with Out ev => Some (snd ev) | Polled ev _ => Some (snd ev) | _ => None end)
      by (wake_cases q k0; auto).
    rewrite Hco. split; [split|].
    + destruct consume; auto. rewrite src_of_put. destruct (k0 =? k) eqn:E; auto.
      apply N.eqb_eq in E; subst; auto.
    + intros ev' E. apply C2. revert E. wake_cases q k0; auto; discriminate.
    + intros [H|[_ H]]; try discriminate; auto.
  - (* LInsert *)
    proj. wr. rewrite src_of_insert. split; [split; auto|].
    intros [H|[_ [H|H]]].
    + inversion H; subst. left. destruct (memN k (f_streams q)) eqn:Em.
      * apply memN_In; auto.
      * apply in_or_app; right; left; auto.
    + left. destruct (memN k0 (f_streams q)); auto. apply in_or_app; auto.
    + auto.
  - (* LRemove *)
    proj. split; [split; auto|]. intros [H|[Hn [H|H]]]; try discriminate; auto.
    left. apply delN_In; split; auto. congruence.
  - (* LArrive *)
    proj. rewrite the_src_eq, src_of_put. split; [split; auto|].
    + destruct (k0 =? k) eqn:E; auto. apply N.eqb_eq in E; subst; auto.
    + intros [H|[_ H]]; try discriminate; auto.
  - (* LClose *)
    proj. rewrite the_src_eq, src_of_put. split; [split; auto|].
    + destruct (k0 =? k) eqn:E; auto. apply N.eqb_eq in E; subst; congruence.
    + intros [H|[_ H]]; try discriminate; auto.
  - (* LYield *)
    proj. split; [split; auto|]. intros [H|[_ H]]; try discriminate; auto.
Qed.

Lemma InvC_run : forall ls q k, ~ In (LClose k) ls -> InvC q k -> InvC (fst (run q ls)) k.
Proof.
  induction ls as [|l t IH]; intros q k Hc I; auto.
  rewrite run_cons_fst. apply IH.
  - intros H; apply Hc; right; auto.
  - apply F_step; auto. intros ->; apply Hc; left; auto.
Qed.

Lemma held_run : forall ls q k, ~ In (LClose k) ls -> ~ In (LRemove k) ls ->
  InvC q k -> held q k -> held (fst (run q ls)) k.
Proof.
  induction ls as [|l t IH]; intros q k Hc Hr I Hh; auto.
  rewrite run_cons_fst.
  assert (l <> LClose k) by (intros ->; apply Hc; left; auto).
  assert (l <> LRemove k) by (intros ->; apply Hr; left; auto).
  destruct (F_step q l k) as [I' Hh']; auto.
  apply IH; auto.
  - intros X; apply Hc; right; auto.
  - intros X; apply Hr; right; auto.
Qed.

Lemma no_stream_lost_gen : forall ls q k,
  In (LInsert k) ls -> ~ In (LRemove k) ls -> ~ In (LClose k) ls ->
  InvC q k -> held (fst (run q ls)) k.
Proof.
  induction ls as [|l t IH]; intros q k Hi Hr Hc I; [contradiction|].
  rewrite run_cons_fst.
  assert (l <> LClose k) by (intros ->; apply Hc; left; auto).
  assert (Hc' : ~ In (LClose k) t) by (intros X; apply Hc; right; auto).
  assert (Hr' : ~ In (LRemove k) t) by (intros X; apply Hr; right; auto).
  destruct (F_step q l k) as [I' Hh']; auto.
  destruct Hi as [->|Hi].
  - apply held_run; auto.
  - apply IH; auto.
Qed.

(* third premise stated as [~ In (LClose k) ls]: the form [forall x, ~ In (LClose k) ls] of the task
   leaves the type of the unused [x] undetermined and is rejected by Coq *)
Theorem fq_no_stream_lost : forall b ls q es k, run (fq0 b) ls = (q, es) ->
  In (LInsert k) ls -> ~ In (LRemove k) ls -> ~ In (LClose k) ls ->
  In k (f_streams q) \/ checked_out q = Some k.
Proof.
  intros b ls q es k H Hi Hr Hc.
  change q with (fst (q, es)). rewrite <- H.
  apply no_stream_lost_gen; auto.
  split; cbn; auto. discriminate.
Qed.

(* the same with the premise quantified over a dummy [x : N], as in the task text *)
Corollary fq_no_stream_lost' : forall b ls q es k, run (fq0 b) ls = (q, es) ->
  In (LInsert k) ls -> ~ In (LRemove k) ls -> (forall x : N, ~ In (LClose k) ls) ->
  In k (f_streams q) \/ checked_out q = Some k.
Proof. intros. eapply fq_no_stream_lost; eauto. Qed.

(** * G. the composite poll returns *)

(** As stated (for every window) G is false: a window that is not consumed inside the call is replayed
    after it, and an [LStart] in it starts the next call. *)
Lemma poll_returns_idle_counterexample :
  f_pc (fq0 false) = Idle /\ f_pc (fst (poll (fq0 false) 0 [LStart])) = Loop.
Proof. split; reflexivity. Qed.

Lemma heap_insert_length : forall e h, length (heap_insert e h) = S (length h).
Proof.
  induction h as [|x t IH]; cbn [heap_insert length]; auto.
  destruct (fst e <? fst x); cbn [length]; auto.
Qed.

Lemma step_heap_len : forall q l, (length (f_heap (fst (step q l))) <= S (length (f_heap q)))%nat.
Proof.
  intros q l. destruct l; step_cases q; proj; wr; rewrite ?heap_insert_length; cbn [length]; auto;
    try (rewrite ?Eh; cbn [length]; lia).
Qed.

Lemma run_heap_len : forall w q, (length (f_heap (fst (run q w))) <= length w + length (f_heap q))%nat.
Proof.
  induction w as [|l t IH]; intros q; [cbn; lia|].
  rewrite run_cons_fst. specialize (IH (fst (step q l))).
  pose proof (step_heap_len q l). cbn [length]. lia.
Qed.

Lemma step_idle_noStart : forall q l, l <> LStart -> f_pc q = Idle -> f_pc (fst (step q l)) = Idle.
Proof.
  intros q l Hl Hpc. destruct l; try congruence; unfold step; rewrite ?Hpc; proj; auto.
  - destruct (s_reg (the_src q k)); proj; wr; auto.
  - wr; auto.
Qed.

Lemma run_idle_noStart : forall w q, ~ In LStart w -> f_pc q = Idle -> f_pc (fst (run q w)) = Idle.
Proof.
  induction w as [|l t IH]; intros q Hn Hpc; auto.
  rewrite run_cons_fst. apply IH.
  - intros X; apply Hn; right; auto.
  - apply step_idle_noStart; auto. intros ->; apply Hn; left; auto.
Qed.

Definition meas (q : fq) (W : nat) : nat :=
  match f_pc q with
  | Idle => 0
  | Loop => 3 * (length (f_heap q) + W) + 1
  | Polled _ QYield => 1
  | Polled _ _ => 3 * (length (f_heap q) + W) + 2
  | Out _ => 3 * (length (f_heap q) + W) + 3
  end.

Definition budget (idx : nat) (w : list label) (nth : nat) : nat :=
  if Nat.leb nth idx then length w else 0%nat.

Lemma meas_LR2 : forall q, (meas (fst (step q LR2)) 0 <= 3 * length (f_heap q) + 2)%nat.
Proof.
  intros q. unfold meas, step. destruct (f_pc q) as [| |ev|ev r] eqn:Epc; proj; rewrite ?Epc; try lia.
  - destruct (s_items (the_src q (snd ev))); [destruct (s_closed (the_src q (snd ev)))|]; proj; lia.
  - destruct r; lia.
Qed.

Lemma meas_LR2Y : forall q, (meas (fst (step q LR2Y)) 0 <= 3 * length (f_heap q) + 2)%nat.
Proof.
  intros q. unfold meas, step. destruct (f_pc q) as [| |ev|ev r] eqn:Epc; wr; rewrite ?Epc; try lia.
  destruct r; lia.
Qed.

(** the stream poll of one loop iteration, plain or yielding *)
Lemma meas_poll : forall q (y : bool),
  (meas (fst (step q (if y then LR2Y else LR2))) 0 <= 3 * length (f_heap q) + 2)%nat.
Proof. intros q [|]; [apply meas_LR2Y|apply meas_LR2]. Qed.

Lemma meas_poll_out : forall q ev (y : bool) W, f_pc q = Out ev ->
  (meas (fst (step q (if y then LR2Y else LR2))) W <= 3 * (length (f_heap q) + W) + 2)%nat.
Proof.
  intros q ev y W Epc. unfold meas. destruct y; unfold step; rewrite Epc.
  - wr. lia.
  - destruct (s_items (the_src q (snd ev))); [destruct (s_closed (the_src q (snd ev)))|]; proj; lia.
Qed.

Lemma poll_loop_idle : forall idx w fuel q nth,
  (meas q (budget idx w nth) <= fuel)%nat ->
  f_pc (fst (fst (poll_loop fuel q idx w nth))) = Idle.
Proof.
  intros idx w. induction fuel as [|f IH]; intros q nth Hm.
  - cbn [poll_loop fst]. unfold meas in Hm. destruct (f_pc q) as [| |ev|ev r]; auto; try lia.
    destruct r; lia.
  - cbn [poll_loop]. destruct (f_pc q) eqn:Epc.
    + cbn [fst]; auto.
    + unfold meas in Hm. rewrite Epc in Hm.
      destruct (step q LR1) as [q1 e1] eqn:Es.
      specialize (IH q1 nth).
      destruct (poll_loop f q1 idx w nth) as [[q2 e2] n2]. cbn [fst] in *. apply IH.
      replace q1 with (fst (step q LR1)) by (rewrite Es; auto).
      unfold meas, step. rewrite Epc.
      destruct (f_heap q) as [|ev h'] eqn:Eh.
      * destruct (negb (is_nilN (f_streams q)) || f_block q); proj; lia.
      * cbn [length] in Hm. destruct (memN (snd ev) (f_streams q)); proj; lia.
    + unfold meas in Hm. rewrite Epc in Hm.
      destruct (Nat.eqb nth idx) eqn:En.
      * apply Nat.eqb_eq in En. subst nth.
        destruct (run q w) as [q0 e0] eqn:Er.
        cbn [andb].
        set (y := existsb (fun l => match l with LYield => true | _ => false end) w).
        destruct (step q0 (if y then LR2Y else LR2)) as [q1 e1] eqn:Es.
        specialize (IH q1 (S idx)).
        destruct (poll_loop f q1 idx w (S idx)) as [[q2 e2] n2]. cbn [fst] in *. apply IH.
        unfold budget in *. rewrite Nat.leb_refl in Hm.
        replace (Nat.leb (S idx) idx) with false by (symmetry; apply Nat.leb_gt; lia).
        replace q1 with (fst (step q0 (if y then LR2Y else LR2))) by (rewrite Es; auto).
        pose proof (meas_poll q0 y). pose proof (run_heap_len w q). rewrite Er in *. cbn [fst] in *. lia.
      * cbn [andb].
        destruct (step q LR2) as [q1 e1] eqn:Es.
        specialize (IH q1 (S nth)).
        destruct (poll_loop f q1 idx w (S nth)) as [[q2 e2] n2]. cbn [fst] in *. apply IH.
        replace q1 with (fst (step q LR2)) by (rewrite Es; auto).
        assert (Hb : (budget idx w (S nth) <= budget idx w nth)%nat).
        { unfold budget. destruct (Nat.leb (S nth) idx) eqn:E1; [|lia].
          apply Nat.leb_le in E1. replace (Nat.leb nth idx) with true; auto.
          symmetry; apply Nat.leb_le; lia. }
        pose proof (meas_poll_out q ev false (budget idx w (S nth)) Epc) as X. cbn iota in X. lia.
    + destruct (step q LR3) as [q1 e1] eqn:Es.
      specialize (IH q1 nth).
      destruct (poll_loop f q1 idx w nth) as [[q2 e2] n2]. cbn [fst] in *. apply IH.
      replace q1 with (fst (step q LR3)) by (rewrite Es; auto).
      unfold meas in Hm. rewrite Epc in Hm.
      unfold meas, step. rewrite Epc. destruct r; proj; lia.
Qed.

(** corrected G: the window must not contain [LStart] (in the harness it only carries environment labels) *)
Theorem poll_returns_idle_noStart : forall q idx w, ~ In LStart w ->
  f_pc q = Idle -> f_pc (fst (poll q idx w)) = Idle.
Proof.
  intros q idx w Hw Hpc. unfold poll.
  destruct (step q LStart) as [q1 e] eqn:Es.
  assert (E1 : q1 = fst (step q LStart)) by (rewrite Es; auto).
  unfold step in E1. rewrite Hpc in E1. cbn [fst] in E1.
  pose proof (poll_loop_idle idx w (4 * (length (f_heap q1) + length w + 2) + 4) q1 0) as H.
  destruct (poll_loop (4 * (length (f_heap q1) + length w + 2) + 4) q1 idx w 0) as [[q2 es] n].
  cbn [fst] in H.
  assert (Hq2 : f_pc q2 = Idle).
  { apply H. unfold meas, budget. subst q1; proj. destruct (Nat.leb 0 idx); lia. }
  destruct (Nat.leb n idx); cbn [fst]; auto.
  pose proof (run_idle_noStart w q2 Hw Hq2) as Hr.
  destruct (run q2 w) as [q3 e3]; auto.
Qed.

Corollary poll_returns_idle_nil : forall q idx, f_pc q = Idle -> f_pc (fst (poll q idx [])) = Idle.
Proof. intros. apply poll_returns_idle_noStart; auto. Qed.

Definition env_label (l : label) : bool :=
  match l with LStart | LR1 | LR2 | LR2Y | LR3 => false | _ => true end.

Corollary poll_returns_idle_env : forall q idx w, forallb env_label w = true ->
  f_pc q = Idle -> f_pc (fst (poll q idx w)) = Idle.
Proof.
  intros q idx w Hw. apply poll_returns_idle_noStart.
  intros X. rewrite forallb_forall in Hw. specialize (Hw _ X). discriminate.
Qed.

(** * STRETCH 1: one claim per stream under the registration contract *)

Fixpoint insert_keys (ls : list label) : list N :=
  match ls with [] => [] | LInsert k :: t => k :: insert_keys t | _ :: t => insert_keys t end.

(** The [claims] of the task statement counts a stream twice between R2 (which stores the registration)
    and R3 (which puts the stream back) when the poll returned Pending: *)
Definition claims_v0 (q : fq) (k : N) : nat :=
  length (filter (fun e => snd e =? k) (f_heap q)) + (match s_reg (the_src q k) with Some _ => 1 | None => 0 end)
  + (match checked_out q with Some k' => if k' =? k then 1 else 0 | None => 0 end).

Lemma claims_v0_counterexample :
  let ls := [LInsert 0; LStart; LR1; LR2] in
  (forall k c, In (LWake k c) ls -> c = true) /\ NoDup (insert_keys ls) /\
  claims_v0 (fst (run (fq0 false) ls)) 0 = 2%nat.
Proof.
  cbv zeta. split; [|split].
  - intros k c H. cbn in H. intuition discriminate.
  - cbn. constructor; [intros []|constructor].
  - reflexivity.
Qed.

(** Counting every polled stream except [QPending] as "being polled" (the definition before [QYield]
    existed, read literally) counts a yielding stream twice: its event is already back in the heap. *)
Definition polling_v1 (q : fq) : option N :=
  match f_pc q with
  | Out ev => Some (snd ev)
  | Polled ev QPending => None
  | Polled ev _ => Some (snd ev)
  | _ => None
  end.
Definition claims_v1 (q : fq) (k : N) : nat :=
  length (filter (fun e => snd e =? k) (f_heap q)) + (match s_reg (the_src q k) with Some _ => 1 | None => 0 end)
  + (match polling_v1 q with Some k' => if k' =? k then 1 else 0 | None => 0 end).

Example claims_v1_counterexample :
  let ls := [LInsert 0; LStart; LR1; LR2Y] in
  (forall k c, In (LWake k c) ls -> c = true) /\ NoDup (insert_keys ls) /\
  claims_v1 (fst (run (fq0 false) ls)) 0 = 2%nat.
Proof.
  cbv zeta. split; [|split].
  - intros k c H. cbn in H. intuition discriminate.
  - cbn. constructor; [intros []|constructor].
  - vm_compute. reflexivity.
Qed.

(** the same double count without any yielding poll: the registration made by the poll in progress fires
    before R3 (so [~ In LR2Y ls] would not have rescued the literal definition) *)
Example claims_v1_counterexample_wake :
  let ls := [LInsert 0; LStart; LR1; LR2; LWake 0 true] in
  (forall k c, In (LWake k c) ls -> c = true) /\ NoDup (insert_keys ls) /\ ~ In LR2Y ls /\
  claims_v1 (fst (run (fq0 false) ls)) 0 = 2%nat.
Proof.
  cbv zeta. split; [|split; [|split]].
  - intros k c H. cbn in H. intuition (try discriminate). inversion H0; auto.
  - cbn. constructor; [intros []|constructor].
  - cbn. intuition discriminate.
  - vm_compute. reflexivity.
Qed.

(** corrected: the stream being polled counts once; once its poll has returned Pending the claim is the
    registration (or, if the waker already fired - in particular for a yielding poll - the event in the heap) *)
Definition polling (q : fq) : option N :=
  match f_pc q with
  | Out ev => Some (snd ev)
  | Polled ev QPending => None
  | Polled ev QYield => None
  | Polled ev _ => Some (snd ev)
  | _ => None
  end.

Definition claims (q : fq) (k : N) : nat :=
  length (filter (fun e => snd e =? k) (f_heap q)) + (match s_reg (the_src q k) with Some _ => 1 | None => 0 end)
  + (match polling q with Some k' => if k' =? k then 1 else 0 | None => 0 end).

Definition b2n (b : bool) : nat := if b then 1%nat else 0%nat.
Definition regc (s : src) : nat := match s_reg s with Some _ => 1%nat | None => 0%nat end.
Definition polc (p : pc) (k : N) : nat :=
  match p with
  | Out ev => b2n (snd ev =? k)
  | Polled ev QPending => 0
  | Polled ev QYield => 0
  | Polled ev _ => b2n (snd ev =? k)
  | _ => 0
  end.
Definition hcount (f : N * N -> bool) (h : list (N * N)) : nat := length (filter f h).

Lemma claims_eq : forall q k,
  claims q k = Nat.add (Nat.add (hcount (fun e => snd e =? k) (f_heap q)) (regc (src_of (f_srcs q) k))) (polc (f_pc q) k).
Proof.
  intros. unfold claims, polling, polc, hcount, regc. rewrite the_src_eq.
  destruct (f_pc q) as [| |ev|ev r]; auto.
  destruct r; auto.
Qed.

Lemma hcount_insert : forall f e h, hcount f (heap_insert e h) = (b2n (f e) + hcount f h)%nat.
Proof.
  unfold hcount. induction h as [|x t IH]; cbn [heap_insert filter].
  - destruct (f e); auto.
  - destruct (fst e <? fst x); cbn [filter].
    + destruct (f e); cbn [length b2n]; auto.
    + destruct (f x); cbn [length]; rewrite IH; lia.
Qed.

Lemma hcount_cons : forall f e h, hcount f (e :: h) = (b2n (f e) + hcount f h)%nat.
Proof. intros. unfold hcount. cbn [filter]. destruct (f e); auto. Qed.

Lemma regc_le1 : forall s, (regc s <= 1)%nat.
Proof. intros. unfold regc. destruct (s_reg s); lia. Qed.

Lemma b2n_le1 : forall b, (b2n b <= 1)%nat.
Proof. destruct b; cbn; lia. Qed.

Definition ins_bump (l : label) (k : N) : nat :=
  match l with LInsert k0 => b2n (k0 =? k) | _ => 0%nat end.

Lemma claims_step : forall q l k, reg_key q -> (forall k0, l <> LWake k0 false) ->
  (claims (fst (step q l)) k <= claims q k + ins_bump l k)%nat.
Proof.
  intros q l k RK Hl. rewrite !claims_eq. unfold ins_bump.
  destruct l; unfold step.
  - destruct (f_pc q) eqn:Epc; proj; rewrite ?Epc; cbn [polc]; lia.
  - destruct (f_pc q) eqn:Epc; proj; rewrite ?Epc; try lia.
    destruct (f_heap q) as [|ev h'] eqn:Eh.
    + destruct (negb (is_nilN (f_streams q)) || f_block q); proj; cbn [polc]; lia.
    + rewrite hcount_cons. destruct (memN (snd ev) (f_streams q)); proj; cbn [polc]; lia.
  - destruct (f_pc q) eqn:Epc; proj; rewrite ?Epc; try lia.
    rewrite the_src_eq.
    destruct (s_items (src_of (f_srcs q) (snd ev))) eqn:Ei.
    + destruct (s_closed (src_of (f_srcs q) (snd ev))) eqn:Ec; proj; cbn [polc]; try lia.
      rewrite src_of_put. destruct (snd ev =? k) eqn:Ek; cbn [b2n]; try lia.
      pose proof (regc_le1 {| s_items := []; s_closed := false; s_reg := Some ev |}). lia.
    + proj. cbn [polc]. rewrite src_of_put. destruct (snd ev =? k) eqn:Ek; try lia.
      apply N.eqb_eq in Ek. subst k. unfold regc; cbn [s_reg]. lia.
  - (* LR2Y *)
    destruct (f_pc q) eqn:Epc; wr; rewrite ?Epc; try lia.
    rewrite hcount_insert. cbn [polc]. lia.
  - destruct (f_pc q) eqn:Epc; proj; rewrite ?Epc; try lia.
    destruct r; proj; cbn [polc]; try lia.
    rewrite hcount_insert. cbn [snd]. lia.
  - fold (step q (LWake k0 consume)). rewrite step_LWake, the_src_eq.
    destruct (s_reg (src_of (f_srcs q) k0)) as [ev|] eqn:Er; proj; try lia.
    wr. rewrite hcount_insert.
    assert (Hpc : polc (wake_pc (f_pc q) k0) k = polc (f_pc q) k) by (wake_cases q k0; auto).
    rewrite Hpc.
    assert (Ek : snd ev = k0) by (apply RK; rewrite the_src_eq; auto).
    destruct consume; [|exfalso; eapply Hl; eauto].
    rewrite src_of_put, Ek. destruct (k0 =? k) eqn:E; cbn [b2n]; try lia.
    apply N.eqb_eq in E. rewrite <- E. unfold regc. cbn [s_reg]. rewrite Er. lia.
  - proj. wr. rewrite hcount_insert, src_of_insert. cbn [snd]. lia.
  - proj. lia.
  - proj. rewrite the_src_eq, src_of_put. destruct (k0 =? k) eqn:E; try lia.
    apply N.eqb_eq in E; subst k0. unfold regc; cbn [s_reg]. lia.
  - proj. rewrite the_src_eq, src_of_put. destruct (k0 =? k) eqn:E; try lia.
    apply N.eqb_eq in E; subst k0. unfold regc; cbn [s_reg]. lia.
  - proj. lia.
Qed.

Lemma insert_keys_app : forall a b, insert_keys (a ++ b) = insert_keys a ++ insert_keys b.
Proof.
  induction a as [|l t IH]; intros; auto. cbn [app insert_keys].
  destruct l; auto. rewrite IH; auto.
Qed.

Lemma NoDup_snoc : forall (a : list N) k, NoDup (a ++ [k]) -> NoDup a /\ ~ In k a.
Proof.
  intros a k H. apply NoDup_remove in H. rewrite app_nil_r in H. auto.
Qed.

Definition contract (ls : list label) : Prop :=
  (forall k c, In (LWake k c) ls -> c = true) /\ NoDup (insert_keys ls).

Lemma contract_snoc : forall ls l, contract (ls ++ [l]) ->
  contract ls /\ (forall k0, l <> LWake k0 false) /\
  (forall k, l = LInsert k -> ~ In k (insert_keys ls)).
Proof.
  intros ls l [Hw Hn]. split; [split|split].
  - intros k c H. apply (Hw k c). apply in_or_app; auto.
  - rewrite insert_keys_app in Hn. destruct l; cbn [insert_keys] in Hn; rewrite ?app_nil_r in Hn; auto.
    apply NoDup_snoc in Hn. tauto.
  - intros k0 ->. specialize (Hw k0 false). assert (false = true); [|discriminate].
    apply Hw. apply in_or_app; right; left; auto.
  - intros k ->. rewrite insert_keys_app in Hn. cbn [insert_keys] in Hn.
    apply NoDup_snoc in Hn. tauto.
Qed.

Lemma one_claim_gen : forall b ls, contract ls ->
  forall k, (claims (fst (run (fq0 b) ls)) k <= 1)%nat /\
            (~ In k (insert_keys ls) -> claims (fst (run (fq0 b) ls)) k = 0%nat).
Proof.
  intros b ls. induction ls as [|l ls IH] using rev_ind; intros Hc k.
  - cbn. split; auto.
  - apply contract_snoc in Hc. destruct Hc as [Hc [Hl Hi]].
    specialize (IH Hc). rewrite run_snoc_fst.
    assert (RK : reg_key (fst (run (fq0 b) ls))) by (apply reg_key_reachable; exists b, ls; auto).
    pose proof (claims_step (fst (run (fq0 b) ls)) l k RK Hl) as Hs.
    destruct (IH k) as [I1 I2]. rewrite insert_keys_app.
    unfold ins_bump in Hs. destruct l; try (split; [lia|]; cbn [insert_keys]; rewrite app_nil_r; intros X; specialize (I2 X); lia).
    cbn [insert_keys]. destruct (k0 =? k) eqn:E; cbn [b2n] in Hs.
    + apply N.eqb_eq in E; subst k0. specialize (Hi k eq_refl). specialize (I2 Hi). split; [lia|].
      intros X. exfalso; apply X. apply in_or_app; right; left; auto.
    + split; [lia|]. intros X. assert (Y : ~ In k (insert_keys ls)) by (intros Z; apply X; apply in_or_app; auto).
      specialize (I2 Y). lia.
Qed.

Theorem fq_one_claim : forall b ls q es, run (fq0 b) ls = (q, es) ->
  (forall k c, In (LWake k c) ls -> c = true) -> NoDup (insert_keys ls) -> forall k, (claims q k <= 1)%nat.
Proof.
  intros b ls q es H Hw Hn k.
  change q with (fst (q, es)). rewrite <- H. apply one_claim_gen. split; auto.
Qed.

(** * STRETCH 2: every priority in the heap, in a registration or checked out is below the counter *)
Definition pc_ev (p : pc) : option (N * N) :=
  match p with Out ev => Some ev | Polled ev _ => Some ev | _ => None end.

Definition prio_bound (q : fq) : Prop :=
  (forall e, In e (f_heap q) -> fst e < f_counter q) /\
  (forall k ev, s_reg (the_src q k) = Some ev -> fst ev < f_counter q) /\
  (forall ev, pc_ev (f_pc q) = Some ev -> fst ev < f_counter q).

Lemma prio_bound_step : forall q l, prio_bound q -> prio_bound (fst (step q l)).
Proof.
  intros q l (H1 & H2 & H3). unfold prio_bound. setoid_rewrite the_src_eq.
  setoid_rewrite the_src_eq in H2.
  assert (Hsame : prio_bound q) by (split; [|split]; auto).
  destruct l; unfold step.
  - destruct (f_pc q) eqn:Epc; proj; rewrite ?Epc; auto.
  - destruct (f_pc q) eqn:Epc; proj; rewrite ?Epc; auto.
    destruct (f_heap q) as [|ev h'] eqn:Eh.
    + destruct (negb (is_nilN (f_streams q)) || f_block q); proj; (split; [|split]; auto);
        try (cbn; discriminate).
    + destruct (memN (snd ev) (f_streams q)); proj; (split; [|split]; auto);
        try (cbn; discriminate);
        try (intros e He; apply H1; right; auto; fail);
        try (cbn [pc_ev]; intros ev' E; inversion E; subst; apply H1; left; auto).
  - destruct (f_pc q) eqn:Epc; proj; rewrite ?Epc; auto.
    assert (Hev : fst ev < f_counter q) by (apply H3; auto).
    rewrite the_src_eq.
    destruct (s_items (src_of (f_srcs q) (snd ev))) eqn:Ei;
      [destruct (s_closed (src_of (f_srcs q) (snd ev))) eqn:Ec|]; proj; (split; [|split]; auto);
      try (cbn [pc_ev]; intros ev' E; inversion E; subst; auto; fail);
      try (intros k ev'; rewrite src_of_put; destruct (snd ev =? k); [|apply H2];
           cbn [s_reg]; try (apply H2); intros E; inversion E; subst; auto).
  - (* LR2Y *)
    destruct (f_pc q) eqn:Epc; wr; rewrite ?Epc; auto.
    split; [|split]; auto.
    intros e He. apply heap_insert_In in He. destruct He as [->|He]; auto.
  - destruct (f_pc q) eqn:Epc; proj; rewrite ?Epc; auto.
    destruct r; proj; (split; [|split]; auto); try (cbn; discriminate);
      try (intros k ev' E; specialize (H2 k ev' E); lia).
    intros e He. apply heap_insert_In in He. destruct He as [->|He]; [cbn [fst]; lia|].
    specialize (H1 e He). lia.
  - fold (step q (LWake k consume)). rewrite step_LWake, the_src_eq.
    destruct (s_reg (src_of (f_srcs q) k)) as [ev|] eqn:Er; proj; auto.
    wr.
    assert (Hpc : pc_ev (wake_pc (f_pc q) k) = pc_ev (f_pc q)) by (wake_cases q k; auto).
    rewrite Hpc. split; [|split]; auto.
    + intros e He. apply heap_insert_In in He. destruct He as [->|He]; auto. eapply H2; eauto.
    + destruct consume; auto. intros k' ev'. rewrite src_of_put.
      destruct (k =? k'); [cbn [s_reg]; discriminate|apply H2].
  - proj. wr. split; [|split].
    + intros e He. apply heap_insert_In in He. destruct He as [->|He]; [cbn [fst]; lia|].
      specialize (H1 e He). lia.
    + intros k' ev'. rewrite src_of_insert. intros E. specialize (H2 k' ev' E). lia.
    + intros ev E. specialize (H3 ev E). lia.
  - proj. auto.
  - proj. rewrite the_src_eq. split; [|split]; auto.
    intros k' ev'. rewrite src_of_put. destruct (k =? k') eqn:E; [|apply H2].
    cbn [s_reg]. apply H2.
  - proj. rewrite the_src_eq. split; [|split]; auto.
    intros k' ev'. rewrite src_of_put. destruct (k =? k') eqn:E; [|apply H2].
    cbn [s_reg]. apply H2.
  - proj. auto.
Qed.

Theorem fq_prio_bound : forall q, reachable q -> prio_bound q.
Proof.
  apply reachable_invariant.
  - intros b. split; [|split]; cbn; intros; try contradiction; discriminate.
  - apply prio_bound_step.
Qed.

(** * STRETCH 3: the fairness bound *)

(** the heap is sorted by priority, so pop-min = head *)
Fixpoint sortedH (h : list (N * N)) : Prop :=
  match h with [] => True | x :: t => (forall e, In e t -> fst x <= fst e) /\ sortedH t end.

Lemma sortedH_insert : forall e h, sortedH h -> sortedH (heap_insert e h).
Proof.
  induction h as [|x t IH]; intros S; cbn [heap_insert].
  - cbn. split; auto. intros e' [].
  - destruct S as [S1 S2]. destruct (fst e <? fst x) eqn:E.
    + cbn [sortedH]. split; [|split; auto].
      intros e' [<-|He']; [lia|]. specialize (S1 e' He'). lia.
    + cbn [sortedH]. split; auto.
      intros e' He'. apply heap_insert_In in He'. destruct He' as [->|He']; [lia|auto].
Qed.

Lemma sortedH_step : forall q l, sortedH (f_heap q) -> sortedH (f_heap (fst (step q l))).
Proof.
  intros q l S. destruct l; step_cases q; proj; wr; auto; try (apply sortedH_insert; auto);
    try (cbn; auto; fail); try (cbn [sortedH] in S; destruct S; auto; fail).
Qed.

Lemma sortedH_reachable : forall q, reachable q -> sortedH (f_heap q).
Proof.
  apply (reachable_invariant (fun q => sortedH (f_heap q))).
  - intros; cbn; auto.
  - apply sortedH_step.
Qed.

(** potential: claims that are served before the event [(p, i)] *)
Definition ahead (p i : N) (e : N * N) : bool := (fst e <=? p) && negb (snd e =? i).
Definition regf (f : N * N -> bool) (s : src) : bool :=
  match s_reg s with Some ev => f ev | None => false end.
Definition rcount (f : N * N -> bool) (l : list (N * src)) : nat :=
  length (filter (fun ks => regf f (snd ks)) l).
Definition serving (q : fq) : nat :=
  match f_pc q with Out _ => 1%nat | Polled _ (QSome _) => 1%nat | _ => 0%nat end.

Definition ahead_count (p i : N) (q : fq) : nat :=
  Nat.add (Nat.add (hcount (ahead p i) (f_heap q)) (rcount (ahead p i) (f_srcs q))) (serving q).

Fixpoint nready (es : list event) : nat :=
  match es with [] => 0%nat | EReady _ _ :: t => S (nready t) | _ :: t => nready t end.

Lemma nready_app : forall a b, nready (a ++ b) = (nready a + nready b)%nat.
Proof. induction a as [|e t IH]; intros; auto. cbn [app nready]. destruct e; rewrite ?IH; auto. Qed.

Lemma rcount_put : forall f k s l,
  (rcount f (put_src k s l) + b2n (regf f (src_of l k)) = rcount f l + b2n (regf f s))%nat.
Proof.
  intros f k s. unfold rcount, src_of. induction l as [|[k' s'] t IH]; cbn [put_src get_src filter].
  - cbn [snd]. destruct (regf f s); cbn; auto.
  - destruct (k' =? k) eqn:E; cbn [filter snd].
    + destruct (regf f s), (regf f s'); cbn [length b2n]; lia.
    + destruct (regf f s'); cbn [length]; lia.
Qed.

Lemma rcount_insert : forall f k l,
  rcount f (match get_src k l with Some _ => l | None => put_src k src0 l end) = rcount f l.
Proof.
  intros. destruct (get_src k l) eqn:E; auto.
  pose proof (rcount_put f k src0 l) as H. unfold src_of in H. rewrite E in H.
  unfold regf in H. cbn [s_reg src0 b2n] in H. lia.
Qed.

Lemma hcount_In_pos : forall f e h, In e h -> f e = true -> (1 <= hcount f h)%nat.
Proof.
  intros f e h Hin Hf. unfold hcount.
  assert (In e (filter f h)) by (apply filter_In; auto).
  destruct (filter f h); [contradiction|cbn; lia].
Qed.

Lemma ahead_fresh : forall p i c k, p < c -> ahead p i (c, k) = false.
Proof. intros. unfold ahead. cbn [fst]. replace (c <=? p) with false by lia. auto. Qed.

Lemma ahead_step : forall p i q l,
  sortedH (f_heap q) -> p < f_counter q -> (forall k, (claims q k <= 1)%nat) ->
  (forall k0, l <> LWake k0 false) ->
  In (p, i) (f_heap (fst (step q l))) ->
  (nready (snd (step q l)) + ahead_count p i (fst (step q l)) <= ahead_count p i q)%nat.
Proof.
  intros p i q l S Hp Hc Hl Hin. unfold ahead_count, serving.
  destruct l; unfold step in *.
  - destruct (f_pc q) eqn:Epc; proj; rewrite ?Epc; cbn [nready]; lia.
  - destruct (f_pc q) eqn:Epc; proj; rewrite ?Epc; cbn [nready]; try lia.
    destruct (f_heap q) as [|ev h'] eqn:Eh.
    + destruct (negb (is_nilN (f_streams q)) || f_block q); proj; cbn [nready]; lia.
    + assert (Hin' : In (p, i) h') by (destruct (memN (snd ev) (f_streams q)); proj_in Hin; auto).
      assert (Ha : ahead p i ev = true).
      { unfold ahead. destruct S as [S1 _]. specialize (S1 _ Hin'). cbn [fst] in S1.
        apply andb_true_intro. split; [lia|].
        destruct (snd ev =? i) eqn:E; auto. exfalso.
        specialize (Hc i). rewrite claims_eq, Eh, hcount_cons, E in Hc. cbn [b2n] in Hc.
        pose proof (hcount_In_pos (fun e => snd e =? i) (p, i) h' Hin') as X.
        cbn [snd] in X. rewrite N.eqb_refl in X. specialize (X eq_refl). lia. }
      rewrite hcount_cons, Ha. cbn [b2n].
      destruct (memN (snd ev) (f_streams q)); proj; cbn [nready]; lia.
  - destruct (f_pc q) eqn:Epc; proj; rewrite ?Epc; cbn [nready]; try lia.
    rewrite the_src_eq.
    destruct (s_items (src_of (f_srcs q) (snd ev))) eqn:Ei.
    + destruct (s_closed (src_of (f_srcs q) (snd ev))) eqn:Ec; proj; cbn [nready]; try lia.
      pose proof (rcount_put (ahead p i) (snd ev) {| s_items := []; s_closed := false; s_reg := Some ev |} (f_srcs q)) as X.
      pose proof (b2n_le1 (regf (ahead p i) {| s_items := []; s_closed := false; s_reg := Some ev |})). lia.
    + proj. cbn [nready].
      pose proof (rcount_put (ahead p i) (snd ev)
        {| s_items := l; s_closed := s_closed (src_of (f_srcs q) (snd ev)); s_reg := s_reg (src_of (f_srcs q) (snd ev)) |} (f_srcs q)) as X.
      unfold regf at 2 in X. cbn [s_reg] in X. fold (regf (ahead p i) (src_of (f_srcs q) (snd ev))) in X. lia.
  - (* LR2Y *)
    destruct (f_pc q) eqn:Epc; wr; rewrite ?Epc; cbn [nready]; try lia.
    rewrite hcount_insert. pose proof (b2n_le1 (ahead p i ev)). lia.
  - destruct (f_pc q) eqn:Epc; proj; rewrite ?Epc; cbn [nready]; try lia.
    destruct r; proj; cbn [nready]; try lia.
    rewrite hcount_insert, ahead_fresh by auto. cbn [b2n]. lia.
  - fold (step q (LWake k consume)) in *. rewrite step_LWake, the_src_eq in *.
    destruct (s_reg (src_of (f_srcs q) k)) as [ev|] eqn:Er; proj; cbn [nready]; try lia.
    wr. rewrite hcount_insert.
    assert (Hpc : match wake_pc (f_pc q) k with Out _ => 1%nat | Polled _ (QSome _) => 1%nat | _ => 0%nat end =
                  match f_pc q with Out _ => 1%nat | Polled _ (QSome _) => 1%nat | _ => 0%nat end)
      by (wake_cases q k; auto).
    rewrite Hpc.
    destruct consume; [|exfalso; eapply Hl; eauto].
    pose proof (rcount_put (ahead p i) k
        {| s_items := s_items (src_of (f_srcs q) k); s_closed := s_closed (src_of (f_srcs q) k); s_reg := None |} (f_srcs q)) as X.
    unfold regf at 1 2 in X. cbn [s_reg] in X. rewrite Er in X. cbn [b2n] in X. lia.
  - proj. wr. cbn [nready]. rewrite hcount_insert, rcount_insert, ahead_fresh by auto. cbn [b2n]. lia.
  - proj. cbn [nready]. lia.
  - proj. cbn [nready]. rewrite the_src_eq.
    pose proof (rcount_put (ahead p i) k
        {| s_items := s_items (src_of (f_srcs q) k) ++ [x]; s_closed := s_closed (src_of (f_srcs q) k); s_reg := s_reg (src_of (f_srcs q) k) |} (f_srcs q)) as X.
    unfold regf at 2 in X. cbn [s_reg] in X. fold (regf (ahead p i) (src_of (f_srcs q) k)) in X. lia.
  - proj. cbn [nready]. rewrite the_src_eq.
    pose proof (rcount_put (ahead p i) k
        {| s_items := s_items (src_of (f_srcs q) k); s_closed := true; s_reg := s_reg (src_of (f_srcs q) k) |} (f_srcs q)) as X.
    unfold regf at 2 in X. cbn [s_reg] in X. fold (regf (ahead p i) (src_of (f_srcs q) k)) in X. lia.
  - proj. cbn [nready]. lia.
Qed.

Lemma contract_prefix : forall a b, contract (a ++ b) -> contract a.
Proof.
  intros a b. induction b as [|l t IH] using rev_ind; intros H.
  - rewrite app_nil_r in H; auto.
  - rewrite app_assoc in H. apply contract_snoc in H. tauto.
Qed.

Lemma contract_mid : forall a l t, contract (a ++ l :: t) -> forall k0, l <> LWake k0 false.
Proof.
  intros a l t [Hw _] k0 ->. specialize (Hw k0 false).
  assert (false = true); [|discriminate]. apply Hw. apply in_or_app; right; left; auto.
Qed.

(** the event [(p, i)] is still in the heap after every step of [ls]: stream [i] has not been checked out *)
Fixpoint stays (p i : N) (q : fq) (ls : list label) : Prop :=
  match ls with
  | [] => True
  | l :: t => In (p, i) (f_heap (fst (step q l))) /\ stays p i (fst (step q l)) t
  end.

Lemma fairness_gen : forall b p i ls ls0 q,
  q = fst (run (fq0 b) ls0) -> contract (ls0 ++ ls) ->
  In (p, i) (f_heap q) -> stays p i q ls ->
  (nready (snd (run q ls)) + ahead_count p i (fst (run q ls)) <= ahead_count p i q)%nat.
Proof.
  intros b p i. induction ls as [|l t IH]; intros ls0 q Hq Hc Hin Hs.
  - cbn. lia.
  - destruct Hs as [Hs1 Hs2].
    assert (R : reachable q) by (exists b, ls0; auto).
    assert (Hp : p < f_counter q) by (apply (fq_prio_bound q R) in Hin; auto).
    assert (H1 : forall k, (claims q k <= 1)%nat).
    { intros k. subst q. apply one_claim_gen. eapply contract_prefix; eauto. }
    pose proof (ahead_step p i q l (sortedH_reachable q R) Hp H1 (contract_mid _ _ _ Hc) Hs1) as Hstep.
    specialize (IH (ls0 ++ [l]) (fst (step q l))).
    rewrite run_snoc_fst, <- Hq, <- app_assoc in IH. specialize (IH eq_refl Hc Hs1 Hs2).
    cbn [run]. destruct (step q l) as [q1 e1]. cbn [fst snd] in *.
    destruct (run q1 t) as [q2 e2]. cbn [fst snd] in *. rewrite nready_app. lia.
Qed.

(** no event for stream [i] itself is delivered while its event waits in the heap *)
Lemma waiting_not_ready : forall q l i p x,
  (forall k, (claims q k <= 1)%nat) -> In (p, i) (f_heap q) -> ~ In (EReady i x) (snd (step q l)).
Proof.
  intros q l i p x Hc Hin. specialize (Hc i). rewrite claims_eq in Hc.
  pose proof (hcount_In_pos (fun e => snd e =? i) (p, i) (f_heap q) Hin) as X.
  cbn [snd] in X. rewrite N.eqb_refl in X. specialize (X eq_refl).
  destruct l; step_cases q; cbn [snd In]; try tauto;
    try (intros [E|[]]; discriminate).
  intros [E|[]]. inversion E; subst. cbn [polc] in Hc. rewrite N.eqb_refl in Hc. cbn [b2n] in Hc. lia.
Qed.

Lemma fairness_not_self : forall b p i ls ls0 q x,
  q = fst (run (fq0 b) ls0) -> contract (ls0 ++ ls) ->
  In (p, i) (f_heap q) -> stays p i q ls -> ~ In (EReady i x) (snd (run q ls)).
Proof.
  intros b p i. induction ls as [|l t IH]; intros ls0 q x Hq Hc Hin Hs.
  - cbn. auto.
  - destruct Hs as [Hs1 Hs2].
    assert (H1 : forall k, (claims q k <= 1)%nat).
    { intros k. subst q. apply one_claim_gen. eapply contract_prefix; eauto. }
    pose proof (waiting_not_ready q l i p x H1 Hin) as Hstep.
    specialize (IH (ls0 ++ [l]) (fst (step q l)) x).
    rewrite run_snoc_fst, <- Hq, <- app_assoc in IH. specialize (IH eq_refl Hc Hs1 Hs2).
    cbn [run]. destruct (step q l) as [q1 e1]. cbn [fst snd] in *.
    destruct (run q1 t) as [q2 e2]. cbn [fst snd] in *.
    intros X. apply in_app_or in X. tauto.
Qed.

(** number of claims in a state: events in the heap, kept registrations, the stream being served *)
Definition nclaims (q : fq) : nat :=
  Nat.add (Nat.add (length (f_heap q)) (rcount (fun _ => true) (f_srcs q))) (serving q).

Lemma rcount_le : forall f l, (rcount f l <= rcount (fun _ => true) l)%nat.
Proof.
  intros f. unfold rcount, regf. induction l as [|[k s] t IH]; cbn [filter snd]; auto.
  destruct (s_reg s) as [ev|]; auto.
  destruct (f ev); cbn [length]; lia.
Qed.

Lemma filter_len_le : forall (f : N * N -> bool) l, (length (filter f l) <= length l)%nat.
Proof.
  induction l as [|x t IH]; cbn [filter length]; auto. destruct (f x); cbn [length]; lia.
Qed.

Lemma hcount_miss : forall f e h, In e h -> f e = false -> (hcount f h + 1 <= length h)%nat.
Proof.
  intros f e. unfold hcount. induction h as [|x t IH]; intros Hin Hf; [contradiction|].
  cbn [filter length]. destruct Hin as [->|Hin].
  - rewrite Hf. pose proof (filter_len_le f t). lia.
  - specialize (IH Hin Hf). destruct (f x); cbn [length]; lia.
Qed.

Lemma ahead_lt_nclaims : forall p i q, In (p, i) (f_heap q) -> (ahead_count p i q + 1 <= nclaims q)%nat.
Proof.
  intros p i q Hin. unfold ahead_count, nclaims.
  pose proof (rcount_le (ahead p i) (f_srcs q)).
  assert (ahead p i (p, i) = false).
  { unfold ahead. cbn [snd]. rewrite N.eqb_refl. apply andb_false_r. }
  pose proof (hcount_miss (ahead p i) (p, i) (f_heap q) Hin H0). lia.
Qed.

(** The fairness bound.  Contract: consuming wakes only, every key inserted at most once (over the whole
    execution [ls0 ++ ls]).  From a state where stream [i] has the event [(p, i)] in the heap, as long as
    that event stays in the heap (stream [i] is not checked out), the number of deliveries [EReady j _]
    (all of them for [j <> i]) is bounded by the number of claims ahead of [(p, i)] — events or kept
    registrations of priority [<= p] for another key, plus the stream being served — which is itself
    at most the number of claims minus one. *)
Theorem fq_fairness_bound : forall b ls0 ls q q' es es0 p i,
  run (fq0 b) ls0 = (q, es0) -> run q ls = (q', es) ->
  (forall k c, In (LWake k c) (ls0 ++ ls) -> c = true) -> NoDup (insert_keys (ls0 ++ ls)) ->
  In (p, i) (f_heap q) -> stays p i q ls ->
  (nready es + ahead_count p i q' <= ahead_count p i q)%nat /\
  (nready es <= nclaims q - 1)%nat /\
  (forall x, ~ In (EReady i x) es).
Proof.
  intros b ls0 ls q q' es es0 p i H0 H1 Hw Hn Hin Hs.
  assert (Hq : q = fst (run (fq0 b) ls0)) by (rewrite H0; auto).
  assert (Hc : contract (ls0 ++ ls)) by (split; auto).
  pose proof (fairness_gen b p i ls ls0 q Hq Hc Hin Hs) as HA.
  pose proof (ahead_lt_nclaims p i q Hin) as HB.
  rewrite H1 in HA. cbn [fst snd] in HA.
  split; [auto|split; [lia|]].
  intros x. pose proof (fairness_not_self b p i ls ls0 q x Hq Hc Hin Hs) as HC.
  rewrite H1 in HC. auto.
Qed.

(** ** claims are keys: under the contract the claims of a state belong to pairwise distinct keys *)
Definition has_reg (s : src) : bool := regf (fun _ => true) s.
Definition claim_keys (q : fq) : list N :=
  map snd (f_heap q) ++ map fst (filter (fun ks => has_reg (snd ks)) (f_srcs q)) ++
  match f_pc q with Out ev => [snd ev] | Polled ev (QSome _) => [snd ev] | _ => [] end.

Lemma claim_keys_length : forall q, length (claim_keys q) = nclaims q.
Proof.
  intros. unfold claim_keys, nclaims, rcount, serving, has_reg.
  rewrite !app_length, !map_length.
  destruct (f_pc q) as [| |ev|ev r]; cbn [length]; try lia. destruct r; cbn [length]; lia.
Qed.

Lemma put_src_keys_In : forall k s l x, In x (map fst (put_src k s l)) -> x = k \/ In x (map fst l).
Proof.
  induction l as [|[k' s'] t IH]; intros x; cbn [put_src map fst In].
  - intuition.
  - destruct (k' =? k) eqn:E; cbn [map fst In].
    + apply N.eqb_eq in E. intuition.
    + intros [H|H]; auto. apply IH in H. intuition.
Qed.

Lemma put_src_keys_NoDup : forall k s l, NoDup (map fst l) -> NoDup (map fst (put_src k s l)).
Proof.
  induction l as [|[k' s'] t IH]; intros H; cbn [put_src map fst].
  - constructor; auto; constructor.
  - inversion H; subst. destruct (k' =? k) eqn:E; cbn [map fst].
    + apply N.eqb_eq in E; subst. constructor; auto.
    + constructor; auto. intros X. apply put_src_keys_In in X. destruct X as [->|X]; auto.
      rewrite N.eqb_refl in E. discriminate.
Qed.

Lemma srcs_NoDup_step : forall q l, NoDup (map fst (f_srcs q)) -> NoDup (map fst (f_srcs (fst (step q l)))).
Proof.
  intros q l H. destruct l; step_cases q; proj; wr; auto; apply put_src_keys_NoDup; auto.
Qed.

Lemma srcs_NoDup_reachable : forall q, reachable q -> NoDup (map fst (f_srcs q)).
Proof.
  apply (reachable_invariant (fun q => NoDup (map fst (f_srcs q)))).
  - intros. cbn. constructor.
  - apply srcs_NoDup_step.
Qed.

Lemma count_heap_keys : forall k h,
  count_occ N.eq_dec (map snd h) k = hcount (fun e => snd e =? k) h.
Proof.
  intros k. unfold hcount. induction h as [|x t IH]; cbn [map count_occ filter]; auto.
  destruct (N.eq_dec (snd x) k) as [E|E].
  - rewrite E, N.eqb_refl. cbn [length]. rewrite IH; auto.
  - apply N.eqb_neq in E. rewrite E; auto.
Qed.

Lemma count_reg_keys : forall k l, NoDup (map fst l) ->
  (count_occ N.eq_dec (map fst (filter (fun ks => has_reg (snd ks)) l)) k <= regc (src_of l k))%nat.
Proof.
  intros k. induction l as [|[k' s'] t IH]; intros H; cbn [filter map count_occ snd fst]; [lia|].
  inversion H; subst. specialize (IH H3).
  unfold src_of. cbn [get_src]. destruct (k' =? k) eqn:E.
  - apply N.eqb_eq in E; subst k'.
    assert (Z : count_occ N.eq_dec (map fst (filter (fun ks => has_reg (snd ks)) t)) k = 0%nat).
    { apply count_occ_not_In. intros X. apply H2.
      apply in_map_iff in X. destruct X as [[k2 s2] [E1 E2]]. apply filter_In in E2.
      apply in_map_iff. exists (k2, s2). tauto. }
    unfold has_reg, regf, regc in *. destruct (s_reg s'); cbn [map count_occ fst]; [|lia].
    destruct (N.eq_dec k k); [lia|congruence].
  - apply N.eqb_neq in E. fold (src_of t k).
    destruct (has_reg s'); cbn [map count_occ fst]; auto.
    destruct (N.eq_dec k' k); [congruence|auto].
Qed.

Lemma count_claim_keys : forall q k, NoDup (map fst (f_srcs q)) ->
  (count_occ N.eq_dec (claim_keys q) k <= claims q k)%nat.
Proof.
  intros q k H. rewrite claims_eq. unfold claim_keys. rewrite !count_occ_app, count_heap_keys.
  pose proof (count_reg_keys k (f_srcs q) H).
  assert ((count_occ N.eq_dec match f_pc q with Out ev => [snd ev] | Polled ev (QSome _) => [snd ev] | _ => [] end k
           <= polc (f_pc q) k)%nat).
  { destruct (f_pc q) as [| |ev|ev r]; cbn [polc count_occ]; auto.
    - destruct (N.eq_dec (snd ev) k) as [->|E]; [rewrite N.eqb_refl; auto|lia].
    - destruct r; cbn [count_occ]; try lia.
      destruct (N.eq_dec (snd ev) k) as [->|E]; [rewrite N.eqb_refl; auto|lia]. }
  lia.
Qed.

Theorem fq_claim_keys_distinct : forall b ls q es, run (fq0 b) ls = (q, es) ->
  (forall k c, In (LWake k c) ls -> c = true) -> NoDup (insert_keys ls) -> NoDup (claim_keys q).
Proof.
  intros b ls q es H Hw Hn. apply (NoDup_count_occ N.eq_dec). intros k.
  assert (R : reachable q) by (exists b, ls; rewrite H; auto).
  pose proof (count_claim_keys q k (srcs_NoDup_reachable q R)).
  pose proof (fq_one_claim b ls q es H Hw Hn k). lia.
Qed.

(** final form: deliveries before stream [i] is served <= (number of distinct keys holding a claim) - 1 *)
Theorem fq_fairness_bound_keys : forall b ls0 ls q q' es es0 p i,
  run (fq0 b) ls0 = (q, es0) -> run q ls = (q', es) ->
  (forall k c, In (LWake k c) (ls0 ++ ls) -> c = true) -> NoDup (insert_keys (ls0 ++ ls)) ->
  In (p, i) (f_heap q) -> stays p i q ls ->
  NoDup (claim_keys q) /\ (nready es <= length (claim_keys q) - 1)%nat.
Proof.
  intros b ls0 ls q q' es es0 p i H0 H1 Hw Hn Hin Hs.
  destruct (fq_fairness_bound b ls0 ls q q' es es0 p i H0 H1 Hw Hn Hin Hs) as (_ & HB & _).
  rewrite claim_keys_length. split; auto.
  assert (Hc : contract ls0) by (apply (contract_prefix ls0 ls); split; auto).
  destruct Hc. eapply fq_claim_keys_distinct; eauto.
Qed.

Print Assumptions fq_exactly_once_in_order.
Print Assumptions fq_claim_invariant.
Print Assumptions fq_parked_invariant.
Print Assumptions fq_no_lost_wakeup.
Print Assumptions yield_returns_pending.
Print Assumptions wake_during_poll_returns_pending.
Print Assumptions fq_yield_is_woken.
Print Assumptions fq_yield_event_queued.
Print Assumptions claims_v1_counterexample.
Print Assumptions claims_v1_counterexample_wake.
Print Assumptions fq_wake_wakes_receiver.
Print Assumptions fq_insert_wakes_receiver.
Print Assumptions fq_idle_holds_nothing.
Print Assumptions fq_parked_is_idle.
Print Assumptions fq_no_stream_lost.
Print Assumptions poll_returns_idle_counterexample.
Print Assumptions poll_returns_idle_noStart.
Print Assumptions poll_returns_idle_nil.
Print Assumptions poll_returns_idle_env.
Print Assumptions claims_v0_counterexample.
Print Assumptions fq_one_claim.
Print Assumptions fq_prio_bound.
Print Assumptions fq_fairness_bound.
Print Assumptions fq_claim_keys_distinct.
Print Assumptions fq_fairness_bound_keys.
