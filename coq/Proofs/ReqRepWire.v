(** C07 + C08 + C01/C02 composed over the wire: a request written by a REQ socket, arriving at a REP socket in
    ANY chunking (possibly behind routing identities added by intermediaries), is handed over as exactly the
    payload; the reply retraces the envelope; arriving at the REQ socket in any chunking it is returned as
    exactly the reply's payload, after which the next request may go out. *)
From Coq Require Import List Arith NArith Lia Bool.
From ZV Require Import Base.Bytes Base.Res Model.Codec Model.World Proofs.CodecEnc Proofs.Decoder Proofs.CodecRoundtrip
  Proofs.SocketProofs Proofs.WorldStreamDefs Proofs.WorldStreamLemmas Proofs.WorldStream Proofs.WorldWireLemmas Proofs.WorldWire.
From ZV Require Import Proofs.ReqRepWireLemmas.
Import ListNotations.
Open Scope N_scope.

(** STATEMENTS TO PROVE (do not change them) *)

(** R1: REQ writes exactly one empty delimiter and the payload *)
Theorem req_request_on_the_wire : forall k p,
  World.run (world0 REQ) [OAttach k None; OSend p; OWire k] =
  [BAtt k None; BSendOk; BWire k (encode_frames ([] :: p))].
Proof.
  intros k p. rewrite run_cons, step_attach. cbn [app]. f_equal.
  destruct (req_send k [] [] [] _ p (req_attach k)) as (w1 & R1 & S1).
  rewrite run_cons, R1. cbn [app]. f_equal.
  destruct (req_wire k _ _ _ _ w1 S1) as (w2 & R2 & S2).
  rewrite run_cons, R2. reflexivity.
Qed.

(** R2: REP hands over exactly the payload behind the first delimiter and its reply retraces the envelope
    (ids = routing identities in front of the delimiter, none for a directly connected REQ) *)
Theorem rep_serves_over_the_wire : forall j ids p r chunks,
  nonempty_frames ids -> p <> [] -> wf_msg (ids ++ [] :: p) ->
  concat chunks = encode_frames (ids ++ [] :: p) ->
  World.run (world0 REP) (OAttach j None :: map (OFeed j) chunks ++ [ORecv; OSend r; OWire j; OSend r]) =
  [BAtt j None; BRecv None p; BSendOk; BWire j (encode_frames (ids ++ [] :: r)); BSendErr EReturnToSender (Some r)].
Proof.
  intros j ids p r chunks Hids Hp Hwf Hc.
  assert (expected (nonnil chunks) false = [] ++ OI (ids ++ [] :: p) :: []) as Hex.
  { apply (expected_of_encodings [ids ++ [] :: p] chunks); [constructor; [exact Hwf|constructor]|].
    cbn [map concat]. rewrite app_nil_r. exact Hc. }
  rewrite run_cons, step_attach. cbn [app]. f_equal.
  destruct (rep_attach j) as [Hs0 Hd0].
  destruct (run_feeds_fq REP j [] chunks [] [] _ [ORecv; OSend r; OWire j; OSend r] Hs0 Hd0) as (w1 & R1 & Hs1 & Hd1).
  rewrite R1. cbn [app] in Hs1.
  destruct (rep_recv_msg j _ _ w1 _ _ [] _ _ Hs1 Hd1 Hex (rep_split_exact ids p Hids Hp))
    as (w2 & R2 & T2 & C2 & E2 & Hd2).
  rewrite run_cons, R2. cbn [app]. f_equal.
  destruct (rep_send j [] w2 _ r T2 C2 E2 Hd2) as (w3 & R3 & T3 & C3 & Hd3).
  rewrite run_cons, R3. cbn [app]. f_equal.
  destruct (wire_step j _ w3 Hd3) as (w4 & R4 & T4 & C4 & _).
  rewrite run_cons, R4. cbn [app]. rewrite <- app_assoc. cbn [app]. f_equal.
  rewrite run_cons, (rep_send_without_request w4 r); [reflexivity|congruence|congruence].
Qed.

(** R3: REQ returns exactly the reply's payload, refuses a second recv, and then accepts the next request *)
Theorem req_reply_over_the_wire : forall k p r p2 chunks,
  r <> [] -> wf_msg ([] :: r) ->
  concat chunks = encode_frames ([] :: r) ->
  World.run (world0 REQ) (OAttach k None :: OSend p :: OWire k :: map (OFeed k) chunks ++ [ORecv; ORecv; OSend p2; OWire k]) =
  [BAtt k None; BSendOk; BWire k (encode_frames ([] :: p)); BRecv None r; BRecvErr EOther; BSendOk; BWire k (encode_frames ([] :: p2))].
Proof.
  intros k p r p2 chunks Hr Hwf Hc.
  assert (expected (nonnil chunks) false = [] ++ OI ([] :: r) :: []) as Hex.
  { apply (expected_of_encodings [[] :: r] chunks); [constructor; [exact Hwf|constructor]|].
    cbn [map concat]. rewrite app_nil_r. exact Hc. }
  rewrite run_cons, step_attach. cbn [app]. f_equal.
  destruct (req_send k [] [] [] _ p (req_attach k)) as (w1 & R1 & S1).
  rewrite run_cons, R1. cbn [app]. f_equal.
  destruct (req_wire k _ _ _ _ w1 S1) as (w2 & R2 & S2).
  rewrite run_cons, R2. cbn [app]. f_equal.
  destruct (req_run_feeds k _ _ _ chunks [] w2 [ORecv; ORecv; OSend p2; OWire k] S2) as (w3 & R3 & S3).
  rewrite R3. cbn [app] in S3.
  destruct (req_recv_msg k _ _ _ w3 r [] Hr S3 Hex) as (w4 & R4 & S4).
  rewrite run_cons, R4. cbn [app]. f_equal.
  rewrite run_cons, (req_recv_none k _ _ _ w4 S4). cbn [app]. f_equal.
  destruct (req_send k _ _ _ w4 p2 S4) as (w5 & R5 & S5).
  rewrite run_cons, R5. cbn [app]. f_equal.
  destruct (req_wire k _ _ _ _ w5 S5) as (w6 & R6 & S6).
  rewrite run_cons, R6. reflexivity.
Qed.

(** non-vacuity *)
Definition rq_p : msg := [[1;2];[];[3]].
Definition rq_r : msg := [[];[9]].
Definition rq_wire := encode_frames ([[7;7]] ++ [] :: rq_p).
Example rq_sample :
  World.run (world0 REP) (OAttach 4 None :: map (OFeed 4) [firstn 2 rq_wire; []; skipn 2 rq_wire] ++ [ORecv; OSend rq_r; OWire 4; OSend rq_r]) =
  [BAtt 4 None; BRecv None rq_p; BSendOk; BWire 4 (encode_frames ([[7;7]] ++ [] :: rq_r)); BSendErr EReturnToSender (Some rq_r)].
Proof. vm_compute. reflexivity. Qed.

Print Assumptions req_request_on_the_wire.
Print Assumptions rep_serves_over_the_wire.
Print Assumptions req_reply_over_the_wire.
