(** C17 / C18 / C20: theorems over the bookkeeping models of Model/Runtime.v. *)
From ZV Require Import Base.Bytes Base.Res Model.Codec Model.Handshake Model.Runtime Proofs.HandshakeProofs Proofs.Decoder.
From Coq Require Import Lia.

(** * C18 *)
Theorem bind_table_exact : forall ops s, b_table s = b_os s -> b_table (fst (brun s ops)) = b_os (fst (brun s ops)).
Proof.
  induction ops as [|o t IH]; intros s H; cbn [brun]; [exact H|].
  destruct (bstep s o) as [s1 x] eqn:E. destruct (brun s1 t) as [s2 xs] eqn:E2. cbn [fst].
  specialize (IH s1). rewrite E2 in IH. cbn [fst] in IH. apply IH.
  unfold bstep in E. destruct o as [[e|]| |e].
  - inversion E; subst; cbn. rewrite H. reflexivity.
  - inversion E; subst; exact H.
  - inversion E; subst; exact H.
  - destruct (memN e (b_table s)); inversion E; subst; cbn; [rewrite H; reflexivity|exact H].
Qed.

Theorem bind_adds_exactly_that : forall s e, memN e (b_os s) = false ->
  let s' := fst (bstep s (BBind (Some e))) in
  snd (bstep s (BBind (Some e))) = BOk e /\ b_table s' = delN e (b_table s) ++ [e] /\ b_os s' = b_os s ++ [e].
Proof.
  intros s e H. cbn. repeat split.
  f_equal. unfold delN. clear -H. induction (b_os s) as [|x l IH]; [reflexivity|].
  cbn in *. destruct (N.eqb_spec e x) as [->|Hne]; cbn in H; [discriminate|].
  destruct (N.eqb_spec x e); [congruence|]. cbn. f_equal. apply IH. exact H.
Qed.

Theorem failed_bind_changes_nothing : forall s, bstep s (BBind None) = (s, BErrOs) /\ bstep s BBindBadText = (s, BErrParse).
Proof. intros; split; reflexivity. Qed.

Lemma memN_delN_other j k l : j <> k -> memN j (delN k l) = memN j l.
Proof.
  intros H. unfold memN, delN. induction l as [|x l IH]; [reflexivity|]. cbn.
  destruct (N.eqb_spec x k) as [->|Hx]; cbn.
  - destruct (N.eqb_spec j k); [congruence|]. exact IH.
  - rewrite IH. reflexivity.
Qed.

Lemma memN_delN_same k l : memN k (delN k l) = false.
Proof.
  unfold memN, delN. induction l as [|x l IH]; [reflexivity|]. cbn.
  destruct (N.eqb_spec x k) as [->|Hx]; cbn; [exact IH|].
  destruct (N.eqb_spec k x); [congruence|]. exact IH.
Qed.

Theorem unbind_only_that : forall s e, memN e (b_table s) = true ->
  let s' := fst (bstep s (BUnbind e)) in
  snd (bstep s (BUnbind e)) = BUnbound /\ memN e (b_table s') = false /\ memN e (b_os s') = false /\
  forall j, j <> e -> memN j (b_table s') = memN j (b_table s) /\ memN j (b_os s') = memN j (b_os s).
Proof.
  intros s e H. cbn. rewrite H. cbn. repeat split; try apply memN_delN_same; apply memN_delN_other; assumption.
Qed.

Theorem unbind_unknown : forall s e, memN e (b_table s) = false -> bstep s (BUnbind e) = (s, BNoSuchBind).
Proof. intros s e H. cbn. rewrite H. reflexivity. Qed.

(** * C20 *)
Theorem accept_always_enabled : forall rr fq w, a_stopped w = false ->
  length (a_tasks (astep rr fq w ANewConn)) = S (length (a_tasks w)) /\
  a_tables (astep rr fq w ANewConn) = a_tables w /\ a_monitor (astep rr fq w ANewConn) = a_monitor w.
Proof.
  intros rr fq w H. cbn. rewrite H. cbn. rewrite app_length. cbn. repeat split; lia.
Qed.

(** only running a handshake task touches the socket's tables or the monitor *)
Theorem only_run_touches_backend : forall rr fq w e, (forall j, e <> ARun j) ->
  a_tables (astep rr fq w e) = a_tables w /\ a_monitor (astep rr fq w e) = a_monitor w.
Proof.
  intros rr fq w e H. destruct e as [|j b|j|j|]; cbn; try (split; reflexivity).
  - destruct (a_stopped w); split; reflexivity.
  - exfalso. eapply H. reflexivity.
Qed.

(** running task j: the outcome is decided by j's own bytes alone; a refused handshake is reported as
    an accept failure and leaves the peer tables untouched; an accepted one registers exactly that peer *)
Theorem run_outcome : forall rr fq w j t, find_task j (a_tasks w) = Some t -> h_done t = false ->
  match handshake_verdict (a_local w) (h_chunks t) (h_eof t) with
  | Incomplete => astep rr fq w (ARun j) = w
  | Accept i => a_monitor (astep rr fq w (ARun j)) = a_monitor w ++ [MAccepted j] /\
                a_tables (astep rr fq w (ARun j)) = connection_event rr fq [2000 + j] (Accept i) (a_tables w)
  | v => a_monitor (astep rr fq w (ARun j)) = a_monitor w ++ [MAcceptFailed j] /\
         a_tables (astep rr fq w (ARun j)) = a_tables w
  end.
Proof.
  intros rr fq w j t Hf Hd. cbn. rewrite Hf, Hd.
  destruct (handshake_verdict (a_local w) (h_chunks t) (h_eof t)) as [i|e|p|]; cbn; auto.
Qed.

(** whatever the others do, in whatever chunks bytes arrive: the verdict depends on the concatenation only *)
Theorem verdict_chunking_independent : forall local cs1 cs2 eof,
  concat cs1 = concat cs2 -> handshake_verdict local cs1 eof = handshake_verdict local cs2 eof.
Proof.
  intros local cs1 cs2 eof H. unfold handshake_verdict.
  rewrite (segmentation_independent cs1 cs2 eof H). reflexivity.
Qed.

(** task j's record is touched only by events addressed to connection j *)
Definition same_id (f : hs_task -> hs_task) : Prop := forall t, h_id (f t) = h_id t.

Lemma find_task_upd_other f j l k : same_id f -> j <> k -> find_task k (upd_task f j l) = find_task k l.
Proof.
  intros Hf H. induction l as [|t r IH]; [reflexivity|]. cbn [upd_task map find_task].
  destruct (N.eqb_spec (h_id t) j) as [E|E].
  - rewrite Hf. destruct (N.eqb_spec (h_id t) k); [congruence|]. exact IH.
  - destruct (h_id t =? k); [reflexivity|exact IH].
Qed.

Lemma find_task_app_found k l x t : find_task k l = Some t -> find_task k (l ++ x) = Some t.
Proof.
  induction l as [|y r IH]; [discriminate|]. cbn. destruct (h_id y =? k); [auto|exact IH].
Qed.

Definition concerns (e : aev) (j : N) : bool :=
  match e with ABytes j' _ | AClose j' | ARun j' => j' =? j | _ => false end.

Theorem others_do_not_touch_task : forall rr fq w e j t, concerns e j = false ->
  find_task j (a_tasks w) = Some t -> find_task j (a_tasks (astep rr fq w e)) = Some t.
Proof.
  intros rr fq w e j t Hc Hf. destruct e as [|j' b|j'|j'|]; cbn [astep a_tasks concerns] in *.
  - destruct (a_stopped w); [exact Hf|]. cbn [a_tasks]. apply find_task_app_found. exact Hf.
  - rewrite find_task_upd_other; [exact Hf| |intros ->; rewrite N.eqb_refl in Hc; discriminate].
    intros x. destruct (h_eof x); reflexivity.
  - rewrite find_task_upd_other; [exact Hf|intros x; reflexivity|intros ->; rewrite N.eqb_refl in Hc; discriminate].
  - destruct (find_task j' (a_tasks w)) as [t'|]; [|exact Hf].
    destruct (h_done t'); [exact Hf|].
    destruct (handshake_verdict (a_local w) (h_chunks t') (h_eof t')); cbn [a_tasks]; try exact Hf;
      (rewrite find_task_upd_other; [exact Hf|intros x; reflexivity|intros ->; rewrite N.eqb_refl in Hc; discriminate]).
  - exact Hf.
Qed.

(** * C17 *)
Theorem drop_stops_listeners : forall o cq e, owned_ok o -> listening (drop_socket cq o) e = false.
Proof.
  intros o cq e Hok. unfold listening, drop_socket. cbn [o_listeners].
  unfold Runtime.memN. destruct (existsb (N.eqb e) (filter _ (o_listeners o))) eqn:E; [|reflexivity].
  apply existsb_exists in E. destruct E as (x & Hin & Hx). apply N.eqb_eq in Hx. subst x.
  apply filter_In in Hin. destruct Hin as [Hin Hf].
  assert (Runtime.memN e (o_listeners o) = true) as Hm.
  { apply existsb_exists. exists e. split; [exact Hin|apply N.eqb_refl]. }
  apply Hok in Hm. unfold Runtime.memN in Hm. rewrite Hm in Hf. discriminate.
Qed.

(** with shutdown() clearing the fair queue, after a drop (or close) a connection is still open only
    if a handshake task that has not finished owns it *)
Theorem drop_disconnects_all_peers : forall o k, conn_open (drop_socket true o) k = Runtime.memN k (o_handshakes o).
Proof. intros o k. unfold conn_open, drop_socket, queue_alive. cbn. reflexivity. Qed.

(** without it (the defect that was repaired), a connection whose stream had been polled stays open *)
Theorem drop_without_clear_leaks : forall o k, o_wakers o <> [] -> Runtime.memN k (o_queue o) = true ->
  conn_open (drop_socket false o) k = true.
Proof.
  intros o k Hw Hq. unfold conn_open, drop_socket, queue_alive. cbn.
  destruct (o_wakers o); [congruence|]. unfold Runtime.memN in *. cbn. rewrite Hq. destruct (existsb (N.eqb k) (o_handshakes o)); reflexivity.
Qed.

Theorem drop_releases_everything_else : forall o,
  (o_table (drop_socket true o) = []) /\ (o_queue (drop_socket true o) = []) /\ (o_readers (drop_socket true o) = []) /\
  (o_binds (drop_socket true o) = []) /\ (o_handle (drop_socket true o) = false).
Proof. intros; repeat split. Qed.
