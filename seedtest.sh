#!/bin/sh
# usage: seedtest.sh <patch.diff> <check ids...>   - applies a seeded change to /repo, runs the checks, reverts it.
P="$1"; shift
cd /repo || exit 2
git status --short | grep -q . && { echo "repo dirty"; exit 2; }
git apply "$P" || { echo "patch does not apply"; exit 2; }
cd /verif
for id in "$@"; do
  ./zv check "$id" > /tmp/seedtest.$id.out 2>&1; rc=$?
  echo "$id rc=$rc $(grep -c '^VIOLATION' /tmp/seedtest.$id.out) violation line(s): $(grep '^VIOLATION' /tmp/seedtest.$id.out | head -2 | tr '\n' ' ')"
done
git -C /repo checkout -- . ; git -C /repo status --short
