"""Seeded generator of socket-level scenarios (shared by the socket properties).
Scenarios only use operations the Coq World model interprets."""
from . import wire as W

PEER = {"PUB": "SUB", "SUB": "PUB", "XPUB": "SUB", "REQ": "REP", "REP": "REQ", "DEALER": "ROUTER",
        "ROUTER": "DEALER", "PUSH": "PULL", "PULL": "PUSH"}
RECV_TYPES = ["PULL", "SUB", "DEALER", "ROUTER", "REP", "XPUB", "REQ"]
SEND_TYPES = ["PUB", "XPUB", "REQ", "REP", "DEALER", "ROUTER", "PUSH"]
TOPICS = [b"", b"a", b"ab", b"b", b"abc"]
NAMES = "abcd"


def rframe(rng):
    n = rng.choice([0, 1, 1, 2, 3, 5, rng.randint(0, 12), rng.choice([255, 256, 300])])
    return bytes(rng.randrange(256) for _ in range(n))


def rmsg(rng, t):
    """a message the peer of a socket of type t would plausibly send (mostly valid, sometimes not)"""
    nf = rng.choice([1, 1, 2, 3, 4])
    body = [rframe(rng) for _ in range(nf)]
    if t == "REP":
        r = rng.random()
        if r < 0.6:
            return [b""] + [f or b"x" for f in body]
        if r < 0.8:
            return [rframe(rng) or b"i" for _ in range(rng.randint(1, 3))] + [b""] + body
        if r < 0.9:
            return [rframe(rng) or b"i", b""]          # delimiter last
        return body                                  # arbitrary
    if t == "REQ":
        r = rng.random()
        if r < 0.8:
            return [b""] + body
        return body
    if t in ("PUB", "XPUB"):
        r = rng.random()
        if r < 0.45:
            return [b"\x01" + rng.choice(TOPICS)]
        if r < 0.8:
            return [b"\x00" + rng.choice(TOPICS)]
        if r < 0.9:
            return [rng.choice([b"", b"\x02x", b"\x07"])]
        return [b"\x01a", b"extra"]
    return body


def pubframe(rng):
    return rng.choice([b"", b"a", b"ab", b"abc", b"b", b"ba", b"abcd"])


def scenario(rng, t, nops=None, partial=True, allow_eof=True):
    ops = []
    conns = []
    pending = {}          # conn -> bytes not yet fed (tail of a split message)
    announced = {}
    nops = nops or rng.randint(4, 18)
    sent_req = False
    closed = set()

    def attach():
        c = NAMES[len(conns)]
        conns.append(c)
        opt = ""
        if t == "ROUTER" and rng.random() < 0.5:
            announced[c] = ("id" + c).encode() * rng.choice([1, 1, 20])
            opt = " id=" + W.tok(announced[c])
        elif rng.random() < 0.15:
            announced[c] = ("k" + c).encode()
            opt = " id=" + W.tok(announced[c])
        elif rng.random() < 0.12:
            opt = " id=-"          # an Identity property that is present but empty announces nothing (libzmq's default)
        ops.append("attach %s %s%s" % (c, PEER[t], opt))

    if rng.random() < 0.85:
        attach()
    for _ in range(nops):
        r = rng.random()
        if (not conns or (r < 0.12 and len(conns) < 4)):
            if len(conns) < 4:
                attach()
                continue
        if not conns:
            continue
        c = rng.choice(conns)
        if r < 0.40 and t in RECV_TYPES + ["PUB"]:
            if c in closed:
                continue
            if pending.get(c):
                b = pending.pop(c)
                if partial and len(b) > 1 and rng.random() < 0.3:
                    k = rng.randint(1, len(b) - 1)
                    pending[c] = b[k:]
                    b = b[:k]
                ops.append("feed %s %s" % (c, W.tok(b)))
            else:
                b = b"".join(W.msg(rmsg(rng, t)) for _ in range(rng.choice([1, 1, 1, 2, 3])))
                if partial and len(b) > 1 and rng.random() < 0.35:
                    k = rng.randint(1, len(b) - 1)
                    pending[c] = b[k:]
                    b = b[:k]
                ops.append("feed %s %s" % (c, W.tok(b)))
            if t == "PUB" and rng.random() < 0.8:
                ops.append("settle")
        elif r < 0.62 and t in RECV_TYPES:
            ops.append("recv")
        elif r < 0.84 and t in SEND_TYPES:
            if t in ("PUB", "XPUB"):
                m = [pubframe(rng)] + [rframe(rng) for _ in range(rng.choice([0, 0, 1, 2]))]
                ops.append("send " + ";".join(W.tok(f) for f in m))
            elif t == "ROUTER":
                rest = [rframe(rng) for _ in range(rng.choice([1, 1, 2, 3]))]
                q = rng.random()
                if q < 0.7:
                    tgt = "@" + c if c not in announced else W.tok(announced[c])
                elif q < 0.85:
                    tgt = W.tok(b"nobody")
                elif q < 0.93:
                    tgt = "-"
                else:
                    tgt = "r256.41"
                ops.append("send " + ";".join([tgt] + [W.tok(f) for f in rest]))
            else:
                m = [rframe(rng) for _ in range(rng.choice([1, 1, 2, 3]))]
                ops.append("send " + ";".join(W.tok(f) for f in m))
        elif r < 0.90:
            ops.append("wire " + c)
        elif r < 0.94 and t == "SUB":
            ops.append(rng.choice(["sub", "sub", "unsub"]) + " " + W.tok(rng.choice(TOPICS)))
        elif r < 0.97 and allow_eof:
            if c in closed:
                continue
            ops.append("eof " + c)
            closed.add(c)
            pending.pop(c, None)
        else:
            ops.append("dropped " + c)
    for c in conns:
        ops.append("wire " + c)
    if t in RECV_TYPES:
        ops += ["recv", "recv"]
    return "sock %s / %s" % (t, " / ".join(ops))


def parse_frames(b):
    """lenient python frame splitter, for canonicalising SUB subscription replays only"""
    out = []
    i = 0
    while i < len(b):
        fl = b[i]
        if fl & 2:
            if i + 9 > len(b):
                return None
            n = int.from_bytes(b[i + 1:i + 9], "big")
            i += 9
        else:
            if i + 2 > len(b):
                return None
            n = b[i + 1]
            i += 2
        if i + n > len(b):
            return None
        out.append((fl, b[i:i + n]))
        i += n
    return out


def canon(obs, t):
    """canonical form of an observation line: SUB wire contents as a sorted multiset of frames
    (HashSet replay order is arbitrary)"""
    if t != "SUB":
        return obs
    toks = []
    for tk in obs.split():
        if tk.startswith("wire:") and "=" in tk and not tk.endswith("=-"):
            head, hx = tk.split("=", 1)
            fr = parse_frames(bytes.fromhex(hx))
            if fr is not None:
                tk = head + "=" + ",".join(sorted("%02x:%s" % (f, d.hex()) for f, d in fr))
        toks.append(tk)
    return " ".join(toks)


def parse_frames_prefix(b):
    """like parse_frames but returns the complete frames of a possibly truncated stream"""
    out = []
    i = 0
    while i < len(b):
        fl = b[i]
        if fl & 2:
            if i + 9 > len(b):
                break
            n = int.from_bytes(b[i + 1:i + 9], "big")
            h = 9
        else:
            if i + 2 > len(b):
                break
            n = b[i + 1]
            h = 2
        if i + h + n > len(b):
            break
        out.append((fl, b[i + h:i + h + n]))
        i += h + n
    return out
