"""Shared machinery of the zv driver: builds, runners, diff, verdicts, evidence."""
import fcntl
import hashlib
import json
import os
import random
import re
import shutil
import subprocess
import sys
import time

ROOT = os.path.dirname(os.path.dirname(os.path.abspath(__file__)))
REPO = os.environ.get("ZV_REPO", "/repo")
WORK = os.path.join(ROOT, ".work")
COQ = os.path.join(ROOT, "coq")
ZVM = os.path.join(WORK, "zvm")
TARGET = os.path.join(WORK, "target")
ENV = dict(os.environ, CARGO_NET_OFFLINE="true", CARGO_TARGET_DIR=TARGET)

TRUSTED_BASE = [
    "Coq 8.16.1 kernel via coqc (full .vo build, no -vos/-vok, no native_compute; vm_compute used in finite sweeps and examples)",
    "axioms: none declared; Print Assumptions under every property theorem is parsed on every run (allow-list in zvlib/common.py)",
    "gen/extract.py translator (regex extraction of constants/tables from /repo's working tree)",
    "extraction: Require Extraction + ExtrOcamlBasic only (no Extract Constant/Inductive of our own); OCaml 4.13.1",
    "ml/driver.ml (case parser/printer), Rust harness /verif/harness (scripted pipes, canonical printer), zv (diff, verdict)",
    "modelled, not verified: safe-Rust semantics, bytes crate, asynchronous-codec FramedRead2/FramedWrite2 loops, scc/crossbeam/parking_lot, tokio, the OS",
]

# which regenerated constants each property's theorems rest on (a constant the translator cannot find breaks
# the tie of these properties only; for the others the committed last-known value keeps the model running and
# a behavioural change still shows up in the correspondence)
_DEC = r"^(dec_|greeting_|decode_|gr_parse|cmd_parse|read_chunk)"
GEN_RELEVANT = {
    "C01": r"^(enc_|cmd_flag|cmd_short|cmd_long|cmd_nlen|cmd_vlen|gr_len|gr_sig|gr_major_off|gr_minor_off|gr_mech_off|gr_server_off|gr_default)",
    "C02": _DEC, "C03": _DEC[:-1] + r"|matrix|sub_replay_unwraps)",
    "C04": r"^(matrix|max_id|id_guard|version_cmp|gr_parse|gr_default|cmd_parse)",
    "C07": r"^(req_min|rep_min|rep_rejects)", "C08": r"^(req_min|rep_min|req_recv)", "C09": r"^(max_id)", "C10": r"^(rr_)",
    "C11": r"^(pub_|xpub_|sub_op)", "C12": r"^(hwm)", "C13": r"^(sub_)", "C14": r"^(req_recv)", "C06": r"^(fq_)",
    "C16": r"^(rep_disconnect|sub_disconnect|dealer_error|router_send_error|rep_send_error|req_send_error|req_recv_error)",
    "C20": r"^(tcp_accept|ipc_accept)",
    "C17": r"^(generic_shutdown|rep_shutdown|sub_shutdown|xpub_shutdown|queue_clear|sockets_with_drop)",
}

AXIOM_ALLOW = set()  # names of standard-library axioms tolerated under property theorems (none so far)


def log(*a):
    print(*a, file=sys.stderr, flush=True)


def sh(cmd, cwd=None, timeout=None, env=None, check=False):
    t0 = time.time()
    p = subprocess.run(cmd, cwd=cwd, env=env or ENV, shell=isinstance(cmd, str),
                       stdout=subprocess.PIPE, stderr=subprocess.STDOUT, timeout=timeout, text=True,
                       errors="replace")
    if check and p.returncode != 0:
        raise RuntimeError("command failed: %s\n%s" % (cmd, p.stdout[-4000:]))
    return p.returncode, p.stdout, time.time() - t0


class Lock:
    """Serialises build steps between concurrently running checks."""

    def __init__(self, name="build"):
        os.makedirs(WORK, exist_ok=True)
        self.path = os.path.join(WORK, name + ".lock")

    def __enter__(self):
        self.f = open(self.path, "w")
        fcntl.flock(self.f, fcntl.LOCK_EX)
        return self

    def __exit__(self, *a):
        fcntl.flock(self.f, fcntl.LOCK_UN)
        self.f.close()


def write_if_changed(path, content):
    try:
        if open(path).read() == content:
            return False
    except FileNotFoundError:
        pass
    with open(path, "w") as f:
        f.write(content)
    return True


# ---------------------------------------------------------------- build steps

def regenerate_gen():
    """Run the translator; rewrite coq/Gen/Src.v only when its content changed."""
    tmp_v = os.path.join(WORK, "Src.v.new")
    tmp_j = os.path.join(WORK, "gen.json")
    rc, out, _ = sh([sys.executable, os.path.join(ROOT, "gen/extract.py"), tmp_v, tmp_j], env=dict(ENV, ZV_REPO=REPO))
    if rc != 0:
        raise RuntimeError("translator failed:\n" + out)
    src = open(tmp_v).read()
    info = json.load(open(tmp_j))
    if info.get("missing") and os.path.exists(harness_bin()):
        probed = probe_constants(info)
        for k, v in probed.items():
            src = re.sub(r"Definition %s : N := \d+\.  \(\* missing \*\)" % k, "Definition %s : N := %d.  (* probed *)" % (k, v), src)
            info["how"][k] = "probed"
            info["values"][k] = v
        info["missing"] = [m for m in info["missing"] if m not in probed]
    changed = write_if_changed(os.path.join(COQ, "Gen/Src.v"), src)
    return changed, info


def probe_constants(info):
    """Fallback of the translator: constants whose syntactic pattern was not found are MEASURED on the
    compiled code through the harness (finite probes), so that a harmless rewrite (`len >= 256`) does not
    break the tie.  Returns {name: value} for what could be measured; recorded as "probed" in the evidence."""
    miss = set(info.get("missing", []))
    out = {}
    enc = {"enc_short_max", "enc_short_max2", "enc_flag_more", "enc_flag_long", "enc_long_width", "enc_short_width", "enc_more_on_all_but_last"}
    if miss & enc:
        cases = ["p%d enchdr %d,%d" % (n, n, n) for n in range(250, 262)]
        try:
            res = run_impl(cases, "probe")
        except Exception:
            res = {}
        short_max = None
        flags = {}
        widths = {}
        ok = True
        for n in range(250, 262):
            t = res.get("p%d" % n, "").split()
            if len(t) != 3 or t[2] != "rest=0":
                ok = False
                break
            h1, h2 = t[0].split(":")[0], t[1].split(":")[0]
            b1, b2 = bytes.fromhex(h1), bytes.fromhex(h2)
            if len(b1) == 2:
                short_max = n
                widths["s"] = 1
                flags["more_s"], flags["last_s"] = b1[0], b2[0]
            else:
                widths["l"] = len(b1) - 1
                flags["more_l"], flags["last_l"] = b1[0], b2[0]
        if ok and short_max is not None and "l" in widths:
            out.update({"enc_short_max": short_max, "enc_short_max2": short_max, "enc_short_width": widths["s"], "enc_long_width": widths["l"],
                        "enc_flag_more": flags["more_s"] ^ flags["last_s"], "enc_flag_long": flags["last_l"] ^ flags["last_s"],
                        "enc_more_on_all_but_last": 1 if (flags["more_s"] != flags["last_s"] and flags["more_l"] != flags["last_l"]) else 0})
    cmdk = {"cmd_short_max", "cmd_flag_long", "cmd_flag_short", "cmd_long_width"}
    if miss & cmdk:
        # READY of a DEALER with identities of 190..240 bytes: the body crosses every plausible short/long boundary
        cases = ["q%d ready DEALER r%d.41" % (n, n) for n in range(190, 241)]
        try:
            res = run_impl(cases, "probe")
        except Exception:
            res = {}
        shorts, longs, ok = {}, {}, True
        for n in range(190, 241):
            h = res.get("q%d" % n, "")
            try:
                b = bytes.fromhex(h)
            except ValueError:
                ok = False
                break
            if len(b) >= 2 and b[1] == len(b) - 2:
                shorts[len(b) - 2] = b[0]
            else:
                w = next((w for w in (2, 4, 8) if len(b) > 1 + w and int.from_bytes(b[1:1 + w], "big") == len(b) - 1 - w), None)
                if w is None:
                    ok = False
                    break
                longs[len(b) - 1 - w] = (b[0], w)
        if ok and shorts and longs and max(shorts) < min(longs) and len(set(shorts.values())) == 1 and len(set(longs.values())) == 1:
            fl, w = next(iter(longs.values()))
            out.update({"cmd_short_max": max(shorts), "cmd_flag_short": next(iter(shorts.values())), "cmd_flag_long": fl, "cmd_long_width": w})
    return {k: v for k, v in out.items() if k in miss}


def coq_files():
    fs = []
    for d in ("Base", "Gen", "Spec", "Model", "Proofs", "Properties", "Pins"):
        p = os.path.join(COQ, d)
        if os.path.isdir(p):
            for f in sorted(os.listdir(p)):
                if f.endswith(".v"):
                    fs.append(d + "/" + f)
    return fs


def coq_makefile():
    fs = coq_files()
    stamp = os.path.join(COQ, ".filelist")
    if write_if_changed(stamp, "\n".join(fs)) or not os.path.exists(os.path.join(COQ, "Makefile")):
        sh(["coq_makefile", "-f", "_CoqProject"] + fs + ["-o", "Makefile"], cwd=COQ, check=True)


def coq_make(targets, timeout=3000):
    """make the given .vo targets. Returns (ok, log)."""
    coq_makefile()
    rc, out, dt = sh(["timeout", str(timeout), "make", "-j16"] + targets, cwd=COQ)
    return rc == 0, out


def coq_compile_verbose(vfile, timeout=900):
    """(re)compile one property file and return its output (Print Assumptions)."""
    vo = os.path.join(COQ, vfile[:-2] + ".vo")
    if os.path.exists(vo):
        os.remove(vo)
    return coq_make([vfile[:-2] + ".vo"], timeout)


def model_sources_hash():
    h = hashlib.sha256()
    for d in ("Base", "Gen", "Spec", "Model", "Extract"):
        p = os.path.join(COQ, d)
        for f in sorted(os.listdir(p)):
            if f.endswith(".v"):
                h.update(f.encode())
                h.update(open(os.path.join(p, f), "rb").read())
    for f in ("driver.ml", "dispatch2.ml", "build.sh"):
        h.update(open(os.path.join(ROOT, "ml", f), "rb").read())
    return h.hexdigest()


def build_model_driver():
    """Extract the models to OCaml and build the driver, when any model source changed."""
    stamp = os.path.join(WORK, "zvm.stamp")
    hv = model_sources_hash()
    if os.path.exists(ZVM) and os.path.exists(stamp) and open(stamp).read() == hv:
        return
    vos = [f[:-2] + ".vo" for f in coq_files() if f.split("/")[0] in ("Base", "Gen", "Spec", "Model")]
    ok, out = coq_make(vos)
    if not ok:
        raise RuntimeError("model does not compile:\n" + out[-3000:])
    ex = os.path.join(WORK, "extracted")
    shutil.rmtree(ex, ignore_errors=True)
    os.makedirs(ex)
    sh(["coqc", "-Q", COQ, "ZV", os.path.join(COQ, "Extract/Extract.v")], cwd=ex, check=True, timeout=900)
    for f in os.listdir(ex):
        if f.endswith((".vo", ".glob", ".vok", ".vos")):
            os.remove(os.path.join(ex, f))
    sh([os.path.join(ROOT, "ml/build.sh"), ex, ZVM], check=True, timeout=900)
    # Extract.vo lands next to the source; keep the tree clean
    for ext in (".vo", ".glob", ".vok", ".vos"):
        p = os.path.join(COQ, "Extract/Extract" + ext)
        if os.path.exists(p):
            os.remove(p)
    open(stamp, "w").write(hv)


def build_harness(release=False):
    cmd = ["cargo", "build", "--offline"] + (["--release"] if release else [])
    lock = os.path.join(ROOT, "harness/Cargo.lock")
    if not os.path.exists(lock):
        shutil.copy(os.path.join(REPO, "Cargo.lock"), lock)
    rc, out, dt = sh(cmd, cwd=os.path.join(ROOT, "harness"), timeout=3000)
    if rc != 0 and "Cargo.lock" in out:
        shutil.copy(os.path.join(REPO, "Cargo.lock"), lock)
        rc, out, dt = sh(cmd, cwd=os.path.join(ROOT, "harness"), timeout=3000)
    return rc == 0, out


def harness_bin(release=False):
    return os.path.join(TARGET, "release" if release else "debug", "zvh")


# ---------------------------------------------------------------- runners

def _run_model_one(case_lines, tag, tmo):
    path = os.path.join(WORK, "cases", tag + ".model.cases")
    os.makedirs(os.path.dirname(path), exist_ok=True)
    with open(path, "w") as f:
        f.write("\n".join(case_lines) + "\n")
    try:
        rc, out, _ = sh("ulimit -s unlimited 2>/dev/null; exec timeout %d %s %s" % (tmo, ZVM, path), timeout=tmo + 100)
    except subprocess.TimeoutExpired:
        out = ""
    res = {}
    for line in out.splitlines():
        sp = line.split(" ", 1)
        res[sp[0]] = sp[1] if len(sp) > 1 else ""
    return res


def run_model(case_lines, tag):
    """Evaluate the cases with the extracted model. Returns {id: obs}.  Large batches are sharded over
    parallel processes (the driver is a pure function of each line)."""
    n = len(case_lines)
    if n <= 20000:
        return _run_model_one(case_lines, tag, 900)
    import concurrent.futures
    shards = 16
    parts = [case_lines[i::shards] for i in range(shards)]
    res = {}
    with concurrent.futures.ThreadPoolExecutor(max_workers=shards) as ex:
        futs = [ex.submit(_run_model_one, p, "%s.m%d" % (tag, i), 3000) for i, p in enumerate(parts) if p]
        for f in futs:
            res.update(f.result())
    return res


def run_impl_parallel(case_lines, tag, shards=12, release=False):
    """independent processes, for the real-runtime cases (each case spends its time waiting)"""
    import concurrent.futures
    parts = [case_lines[i::shards] for i in range(shards)]
    res = {}
    with concurrent.futures.ThreadPoolExecutor(max_workers=shards) as ex:
        futs = [ex.submit(run_impl, p, "%s.s%d" % (tag, i), release) for i, p in enumerate(parts) if p]
        for f in futs:
            res.update(f.result())
    return res


MAX_HANGS = 4


def run_impl(case_lines, tag, release=False, timeout_per_batch=600):
    """Run the cases on the real code. A crash of the harness process (abort, stack overflow,
    allocation failure) is an observation for the case that was running: `abort(<status>)`."""
    path = os.path.join(WORK, "cases", tag + ".impl.cases")
    os.makedirs(os.path.dirname(path), exist_ok=True)
    with open(path, "w") as f:
        f.write("\n".join(case_lines) + "\n")
    res = {}
    start = 0
    n = len(case_lines)
    exe = harness_bin(release)
    while start < n:
        try:
            p = subprocess.run([exe, path, str(start)], stdout=subprocess.PIPE, stderr=subprocess.PIPE,
                               timeout=timeout_per_batch, text=True, errors="replace")
            rc, out = p.returncode, p.stdout
        except subprocess.TimeoutExpired as e:
            rc, out = -999, (e.stdout or b"").decode("utf8", "replace") if isinstance(e.stdout, bytes) else (e.stdout or "")
        cur = None
        for line in out.splitlines():
            if line.startswith("@"):
                sp = line[1:].split(" ")
                cur = (int(sp[0]), sp[1])
                continue
            sp = line.split(" ", 1)
            res[sp[0]] = sp[1] if len(sp) > 1 else ""
            if cur and cur[1] == sp[0]:
                cur = (cur[0], None)
        if rc == 0:
            break
        if cur is None:
            raise RuntimeError("harness failed before any case (rc=%s): %s" % (rc, out[-500:]))
        idx, cid = cur
        if cid is not None:
            res[cid] = "hang" if rc == -999 else "abort(%s)" % rc
        start = idx + 1
        # code that hangs on a whole family of cases would cost the per-case limit for each of them: after a few
        # hangs the rest of this batch is not run (each is reported as not run because of the earlier hangs)
        nh = sum(1 for v in res.values() if v == "hang")
        if nh >= MAX_HANGS:
            for line in case_lines[start:]:
                res.setdefault(line.split(" ", 1)[0], "hang (not run: %d earlier cases of this batch did not return)" % nh)
            break
    return res


# ---------------------------------------------------------------- hygiene

FORBIDDEN = re.compile(r"\b(Admitted|admit|Axiom|Axioms|Parameter|Parameters|Conjecture|Conjectures|Hypothesis|Hypotheses|Variable|Variables)\b|Unset Guard|bypass_check|type-in-type|impredicative-set|Admit Obligations")


def strip_comments(src):
    out, depth, i = [], 0, 0
    while i < len(src):
        if src.startswith("(*", i):
            depth += 1
            i += 2
        elif src.startswith("*)", i) and depth > 0:
            depth -= 1
            i += 2
        else:
            if depth == 0:
                out.append(src[i])
            i += 1
    return "".join(out)


def hygiene():
    """No Admitted/Axiom/...; Variable/Hypothesis only inside a Section."""
    bad = []
    for f in coq_files() + ["Extract/Extract.v"]:
        if f.startswith("Gen/"):
            continue
        src = strip_comments(open(os.path.join(COQ, f)).read())
        depth = 0
        for ln, line in enumerate(src.splitlines(), 1):
            if re.match(r"\s*Section\b", line):
                depth += 1
            if re.match(r"\s*End\b", line) and depth > 0:
                depth -= 1
            m = FORBIDDEN.search(line)
            if m:
                w = m.group(0)
                if w in ("Variable", "Variables", "Hypothesis", "Hypotheses") and depth > 0:
                    continue
                bad.append("%s:%d: %s" % (f, ln, w))
    return bad


def parse_assumptions(out):
    """From coqc output: list of (closed?, axioms[]) per Print Assumptions."""
    res = []
    lines = out.splitlines()
    i = 0
    while i < len(lines):
        if "Closed under the global context" in lines[i]:
            res.append((True, []))
        elif lines[i].startswith("Axioms:"):
            ax = []
            i += 1
            while i < len(lines) and lines[i] and (lines[i][0].isalpha() or lines[i][0] == " "):
                if lines[i][0] != " " and ":" in lines[i]:
                    ax.append(lines[i].split(":")[0].strip())
                elif lines[i][0] != " " and not lines[i].startswith(("COQC", "make")):
                    ax.append(lines[i].strip())
                i += 1
            res.append((False, ax))
            continue
        i += 1
    return res


def count_statements(vfile):
    src = strip_comments(open(os.path.join(COQ, vfile)).read())
    return len(re.findall(r"^\s*(Theorem|Lemma|Corollary|Example|Fact|Remark)\b", src, re.M))


def pin_hash(pid):
    p = os.path.join(COQ, "Pins", pid + ".v")
    if not os.path.exists(p):
        return None
    return hashlib.sha256(strip_comments(open(p).read()).encode()).hexdigest()[:16]


# ---------------------------------------------------------------- known findings

def known_findings(pid):
    kf, fixed = {}, []
    p = os.path.join(ROOT, "KNOWN_FINDINGS.txt")
    if os.path.exists(p):
        for line in open(p):
            line = line.strip()
            m = re.match(r"finding: property=(\S+) class=(\S+) (.*)", line)
            if m and m.group(1) == pid:
                kf[m.group(2)] = m.group(3)
            m = re.match(r"fixed: property=(\S+) (\S+) (.*)", line)
            if m and m.group(1) == pid:
                fixed.append((m.group(2), m.group(3)))
    return kf, fixed


# ---------------------------------------------------------------- generic check

class Violation:
    def __init__(self, cls, what, case=None, impl=None, expected=None, broken=None):
        self.cls, self.what, self.case, self.impl, self.expected, self.broken = cls, what, case, impl, expected, broken


def distinct(items):
    return len(set(items))


def finish(pid, tier, seed, t0, proof, corr, violations, extra_cov=None, assumptions=None):
    """Write evidence, print KNOWN-FINDING / VIOLATION lines, return exit code."""
    kf, _fixed = known_findings(pid)
    os.makedirs(os.path.join(ROOT, "replays"), exist_ok=True)
    os.makedirs(os.path.join(ROOT, "evidence"), exist_ok=True)
    rc = 0
    reported = 0
    seen_known = set()
    seen_cls = set()
    for v in violations:
        if v.cls in kf:
            if v.cls not in seen_known:
                print("KNOWN-FINDING: property=%s %s [%s]" % (pid, kf[v.cls], v.cls))
                seen_known.add(v.cls)
            continue
        if v.cls in seen_cls:
            continue
        seen_cls.add(v.cls)
        body = {"property": pid, "class": v.cls, "what": v.what, "case": v.case, "implementation": v.impl,
                "expected": v.expected, "broken": v.broken, "seed": seed, "tier": tier,
                "replay": "./zv replay <this file>"}
        hsh = hashlib.sha256(json.dumps(body, sort_keys=True).encode()).hexdigest()[:10]
        path = os.path.join("replays", "%s-%s.json" % (pid, hsh))
        with open(os.path.join(ROOT, path), "w") as f:
            json.dump(body, f, indent=1)
        tail = "" if v.case is not None else " no-failing-input-found"
        print("VIOLATION property=%s replay=%s%s" % (pid, path, tail))
        rc = 1
        reported += 1
    cov = {
        "obligations": proof.get("obligations", 0),
        "discharged": proof.get("discharged", 0),
        "checker_cmd": proof.get("checker_cmd", ""),
        "trusted_base": TRUSTED_BASE + proof.get("trusted_extra", []),
        "theorems": proof.get("theorems", []),
        "assumptions_report": proof.get("assumptions_report", ""),
        "pin_hash": proof.get("pin_hash"),
        "coqchk": proof.get("coqchk"),
        "gen_paths": proof.get("gen_paths", {}),
        "evaluations": corr.get("evaluations", 0),
        "distinct_nontrivial": corr.get("distinct_nontrivial", 0),
        "rule": corr.get("rule", ""),
        "samples": corr.get("samples", [])[:8],
        "exhaustive": corr.get("exhaustive", False),
        "input_distribution": corr.get("distribution", {}),
        "correspondence_diffs": corr.get("diffs", 0),
        "known_findings_seen": sorted(seen_known),
    }
    if extra_cov:
        cov.update(extra_cov)
    ev = {"property_id": pid, "tier": tier, "seed": seed, "level": "proof", "coverage": cov,
          "assumptions": assumptions or [], "wall_s": round(time.time() - t0, 2), "violations": reported}
    with open(os.path.join(ROOT, "evidence", pid + ".json"), "w") as f:
        json.dump(ev, f, indent=1)
    return rc


def coqchk(pid, timeout=1500):
    """independent re-check of the compiled property file and everything it depends on"""
    rc, out, dt = sh(["timeout", str(timeout), "coqchk", "-o", "-silent", "-Q", ".", "ZV", "ZV.Properties." + pid], cwd=COQ)
    m = re.search(r"\* Axioms:\s*(.*?)\n\s*\n", out, re.S)
    axioms = m.group(1).strip() if m else "?"
    bad = []
    for key in ("type-in-type", "unsafe (co)fixpoints", "positivity is assumed"):
        mm = re.search(re.escape(key) + r":\s*(.*?)\n", out)
        if mm and mm.group(1).strip() != "<none>":
            bad.append(key + ": " + mm.group(1).strip())
    ok = rc == 0 and axioms == "<none>" and not bad
    return ok, "coqchk rc=%d axioms=%s %s (%.0fs)" % (rc, axioms, "; ".join(bad), dt)


def prove(pid, gen_info, extra_targets=(), tier="quick"):
    """Build the property's theorem file; scan hygiene, assumptions and pins.
    Returns (proof_dict, broken_list)."""
    broken = []
    vfile = "Properties/%s.v" % pid
    targets = [vfile[:-2] + ".vo"] + list(extra_targets)
    pins = "Pins/%s.v" % pid
    with Lock("coq"):
        ok_deps, out_deps = coq_make([t for t in targets])
        ok, out = coq_compile_verbose(vfile) if ok_deps else (False, out_deps)
        ok_p, out_p = (True, "")
        if ok and os.path.exists(os.path.join(COQ, pins)):
            ok_p, out_p = coq_make([pins[:-2] + ".vo"])
    nstat = count_statements(vfile) if os.path.exists(os.path.join(COQ, vfile)) else 0
    proof = {"obligations": nstat, "discharged": nstat if ok else 0,
             "checker_cmd": "cd coq && coq_makefile -f _CoqProject <files> -o Makefile && make -j16 " + " ".join(targets),
             "pin_hash": pin_hash(pid), "gen_paths": gen_info.get("how", {})}
    if not ok:
        m = re.search(r"File \"([^\"]+)\", line (\d+)[^\n]*\n(Error:.*?)(?:\n\n|\Z)", out, re.S)
        where = "%s:%s %s" % (m.group(1), m.group(2), " ".join(m.group(3).split())[:300]) if m else out[-400:]
        broken.append("proof obligation no longer checks: " + where)
    elif not ok_p:
        broken.append("pinned statement no longer matches: " + out_p[-300:])
    else:
        ass = parse_assumptions(out)
        names = re.findall(r"^\s*Theorem\s+(\w+)", strip_comments(open(os.path.join(COQ, vfile)).read()), re.M)
        proof["theorems"] = names
        notclosed = [a for (c, axs) in ass if not c for a in axs if a not in AXIOM_ALLOW]
        proof["assumptions_report"] = "%d Print Assumptions: %d closed under the global context; axioms: %s" % (
            len(ass), sum(1 for c, _ in ass if c), sorted(set(notclosed)) or "none")
        if notclosed:
            broken.append("theorem depends on axioms outside the allow-list: %s" % sorted(set(notclosed)))
        if len(ass) < len(names):
            broken.append("missing Print Assumptions under a property theorem (%d < %d)" % (len(ass), len(names)))
    if tier == "thorough" and not broken:
        with Lock("coq"):
            okc, rep = coqchk(pid)
        proof["coqchk"] = rep
        proof["checker_cmd"] += " ; coqchk -o -silent -Q . ZV ZV.Properties." + pid
        if not okc:
            broken.append("independent checker: " + rep)
    hy = hygiene()
    if hy:
        broken.append("hygiene: " + "; ".join(hy[:5]))
    rel = [m for m in gen_info.get("missing", []) if re.match(GEN_RELEVANT.get(pid, r"^$"), m)]
    if rel:
        broken.append("translator could not find (relevant to %s): %s" % (pid, ",".join(rel)))
    proof["gen_missing"] = gen_info.get("missing", [])
    return proof, broken


def prepare(release=False):
    """Everything a check needs before it looks at anything: regenerate Gen from /repo's current
    working tree, rebuild model driver and harness."""
    os.makedirs(WORK, exist_ok=True)
    with Lock("build"):
        # the harness first: the translator's probe fallback measures constants on the code as it is now
        ok, out = build_harness(False)
        if not ok:
            raise RuntimeError("harness does not build against /repo:\n" + out[-3000:])
        with Lock("coq"):
            changed, info = regenerate_gen()
            build_model_driver()
        if release:
            ok, out = build_harness(True)
            if not ok:
                raise RuntimeError("release harness does not build:\n" + out[-3000:])
    return info


def compare(cases, impl, model, norm_impl=None, norm_model=None):
    """Generic diff. The model side may offer alternatives separated by ' || '."""
    diffs = []
    for line in cases:
        cid = line.split(" ", 1)[0]
        a = impl.get(cid)
        b = model.get(cid)
        if a is None or b is None:
            diffs.append((line, a, b))
            continue
        def ap(f, x):
            try:
                return f(x, line)
            except TypeError:
                return f(x)
        a2 = ap(norm_impl, a) if norm_impl else a
        alts = [x.strip() for x in b.split(" || ")]
        if norm_model:
            alts = [ap(norm_model, x) for x in alts]
        if a2 not in alts:
            diffs.append((line, a, b))
    return diffs
