"""Schedules for the fair-queue probe (labels of coq/Model/FairQueue.v)."""
import itertools


def enumerate_schedules(nstreams, depth, with_window=True):
    """all label sequences of the given depth over a small alphabet; keys are inserted at most once,
    every stream has at most 2 items; window events ride on P labels"""
    keys = list(range(1, nstreams + 1))
    base = ["P"]
    for k in keys:
        base += ["I%d" % k, "A%d" % k, "W%d" % k, "C%d" % k]
    if with_window:
        for k in keys:
            base += ["P:0~A%d~W%d" % (k, k), "P:0~I%d" % k, "P:0~C%d~W%d" % (k, k)]
        # the first stream polled by this call yields (wakes the waker it is polled with, returns Pending)
        base += ["P:0~Y"]
    out = []

    def rec(seq, inserted, items, closed):
        if len(seq) == depth:
            out.append(list(seq))
            return
        for lab in base:
            ins2, it2, cl2 = set(inserted), dict(items), set(closed)
            ok = True
            for part in ([lab] if not lab.startswith("P:") else lab[4:].split("~")):
                if part[0] == "I":
                    k = int(part[1:])
                    if k in ins2:
                        ok = False
                    ins2.add(k)
                elif part[0] == "A":
                    k = int(part[1:])
                    if it2.get(k, 0) >= 2 or k in cl2:
                        ok = False
                    it2[k] = it2.get(k, 0) + 1
                elif part[0] == "C":
                    k = int(part[1:])
                    if k in cl2:
                        ok = False
                    cl2.add(k)
            if not ok:
                continue
            seq.append(lab)
            rec(seq, ins2, it2, cl2)
            seq.pop()

    rec([], set(), {}, set())
    return out


def concretise(seq):
    """give every Arrive a distinct item value k*10+i"""
    cnt = {}
    res = []
    for lab in seq:
        parts = lab.split("~")
        np_ = []
        for p in parts:
            if p.startswith("A") and "." not in p:
                k = int(p[1:])
                cnt[k] = cnt.get(k, 0) + 1
                p = "A%d.%d" % (k, k * 10 + cnt[k])
            np_.append(p)
        res.append("~".join(np_))
    return res


def random_schedule(rng, nstreams, depth, removes=False, spurious=False):
    keys = list(range(1, nstreams + 1))
    inserted, closed = set(), set()
    cnt = {}
    seq = []
    for _ in range(depth):
        r = rng.random()

        def env_event():
            k = rng.choice(keys)
            q = rng.random()
            if q < 0.2 and k not in inserted:
                inserted.add(k)
                return ["I%d" % k]
            if q < 0.7 and k not in closed:
                cnt[k] = cnt.get(k, 0) + 1
                ev = ["A%d.%d" % (k, k * 100 + cnt[k])]
                if rng.random() < 0.8:
                    ev.append("W%d" % k)
                return ev
            if q < 0.8 and k not in closed:
                closed.add(k)
                return ["C%d" % k] + (["W%d" % k] if rng.random() < 0.8 else [])
            if q < 0.9:
                return [("w%d" if spurious and rng.random() < 0.5 else "W%d") % k]
            if removes and k in inserted and rng.random() < 0.3:
                return ["R%d" % k]
            return ["W%d" % k]

        if r < 0.45:
            if rng.random() < 0.35:
                evs = []
                for _ in range(rng.randint(1, 3)):
                    evs += env_event()
                if rng.random() < 0.25:
                    evs.insert(rng.randint(0, len(evs)), "Y")
                seq.append("P:%d~%s" % (rng.choice([0, 0, 1, 2]), "~".join(evs)))
            else:
                seq.append("P")
        else:
            seq += env_event()
    return seq
