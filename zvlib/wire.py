"""Python-side builders of ZMTP byte streams (input generation only; never an oracle)."""
GREETING = bytes([0xff] + [0] * 8 + [0x7f, 3, 0]) + b"NULL" + bytes(16) + bytes(1) + bytes(31)


def greeting(major=3, minor=0, mech=b"NULL", server=0, sig0=0xff, sig9=0x7f):
    g = bytearray(64)
    g[0] = sig0
    g[9] = sig9
    g[10] = major
    g[11] = minor
    g[12:12 + len(mech)] = mech
    g[32] = server
    return bytes(g)


def frame(body, more=False, cmd=False, force_long=False):
    fl = (1 if more else 0) | (4 if cmd else 0)
    if len(body) > 255 or force_long:
        return bytes([fl | 2]) + len(body).to_bytes(8, "big") + body
    return bytes([fl, len(body)]) + body


def msg(frames):
    return b"".join(frame(f, more=(i < len(frames) - 1)) for i, f in enumerate(frames))


def ready_body(props):
    b = bytes([5]) + b"READY"
    for k, v in props:
        b += bytes([len(k)]) + k + len(v).to_bytes(4, "big") + v
    return b


def ready(stype=b"DEALER", ident=None, extra_props=()):
    props = []
    if stype is not None:
        props.append((b"Socket-Type", stype))
    if ident is not None:
        props.append((b"Identity", ident))
    props += list(extra_props)
    return frame(ready_body(props), cmd=True)


def tok(b):
    """bytes -> case token, run-length compressing long runs"""
    if not b:
        return "-"
    out = []
    i = 0
    n = len(b)
    lit = bytearray()
    while i < n:
        j = i
        while j < n and b[j] == b[i]:
            j += 1
        if j - i >= 24:
            if lit:
                out.append(lit.hex())
                lit = bytearray()
            out.append("r%d.%02x" % (j - i, b[i]))
        else:
            lit += b[i:j]
        i = j
    if lit:
        out.append(lit.hex())
    return "+".join(out)


def untok(t):
    out = bytearray()
    for part in t.split("+"):
        if part in ("-", ""):
            continue
        if part[0] == "r":
            n, b = part[1:].split(".")
            out += bytes([int(b, 16)]) * int(n)
        else:
            out += bytes.fromhex(part)
    return bytes(out)
