"""C16 - a failed or closed peer is isolated, forgotten, and its connection released."""
from . import common as C
from . import wire as W
from . import scen
from . import sockcheck as S

PID = "C16"
EXHAUSTIVE = {"quick": True, "thorough": True}
KNOWN_EOF = "clean-eof-keeps-write-half"
RULE = ("nine socket types x EVERY cut position in the peer's byte stream (greeting, READY, between messages, inside a frame header / length / body, "
        "between frames of a multipart message) x {EOF, connection reset on read, write error} x 0-1 (quick) / 0-2 (thorough) other live peers with traffic; "
        "after the fault: 4 recv and 3 send calls, wire taps of the other peers, released halves of the failed connection; "
        "distinct = distinct (type, cut, fault, peers); non-trivial = the cut falls after the handshake (the peer was registered)")
PEER = scen.PEER
RECV = ["PULL", "SUB", "DEALER", "ROUTER", "REP", "XPUB", "REQ"]


def peer_msgs(t, tag):
    if t == "REP":
        return [[b"", tag + b"1", b"x"], [b"", tag + b"2"]]
    if t == "REQ":
        return [[b"", tag + b"1"]]
    if t in ("PUB", "XPUB"):
        return [[b"\x01"], [b"\x01" + tag]]
    if t == "PUSH":
        return []
    return [[tag + b"1", b"", b"yy"], [tag + b"2"]]


def traffic(t, others):
    """ops after the fault: other peers send, the socket receives and sends"""
    ops = []
    for o in others:
        for m in peer_msgs(t, o.encode()):
            ops.append("feed %s %s" % (o, W.tok(W.msg(m))))
    if t == "PUB":
        ops.append("settle")
    if t in RECV:
        ops += ["recv"] * 5
        ops += ["wire a"]          # drain: what was written to a before the failure could be observed
    if t in ("PUB", "XPUB"):
        ops += ["send 5a31", "send 5a32", "send 5a33"]
    elif t == "ROUTER":
        ops += ["send @a;5a31"] + ["send @%s;5a32" % o for o in others] + ["send @a;5a33"]
    elif t in ("PUSH", "DEALER"):
        ops += ["send 5a31", "send 5a32", "send 5a33", "send 5a34"]
    elif t == "REQ":
        ops += ["send 5a31", "recv", "send 5a32", "recv", "send 5a33", "recv"]
    elif t == "REP":
        ops += ["send 5a31", "recv", "send 5a32"]
    ops += ["wire a"] + ["wire " + o for o in others] + ["dropped a"]
    return ops


def cases(tier, rng):
    out = []
    k = 0
    for t in PEER:
        pt = PEER[t]
        stream = W.GREETING + W.ready(pt.encode()) + b"".join(W.msg(m) for m in peer_msgs(t, b"a"))
        hs = len(W.GREETING + W.ready(pt.encode()))
        for nothers in ((0, 1) if tier == "quick" else (0, 1, 2)):
            others = "bc"[:nothers]
            bounds = {hs}
            pos_ = hs
            for m_ in peer_msgs(t, b"a"):
                pos_ += len(W.msg(m_))
                bounds.add(pos_)
            for cut in range(0, len(stream) + 1):
                for kind in ("eof", "ConnectionReset", "junk"):
                    if t == "PUSH" and cut > hs:
                        continue
                    # a protocol error (a command frame with an empty name) in place of the end: only where a frame can start
                    if kind == "junk" and cut not in bounds:
                        continue
                    ops = ["attach %s %s" % (o, pt) for o in others]
                    ops.append("attach a %s raw=%s cut=%d cutkind=%s" % (pt, W.tok(stream), cut, kind))
                    ops += traffic(t, others)
                    out.append("c%d.%s.%d.%s sock %s / %s" % (k, t, cut - hs, kind[:3], t, " / ".join(ops)))
                    k += 1
                    # the same with a monitor that nobody reads (receiver dropped / kept but never drained): reporting the
                    # failure to it must not get in the way of handling the failure
                    if nothers == 1:
                        for flag in (["mondrop"] + (["mon"] if cut % 4 == 0 else [])):
                            out.append("c%d.%s.%d.%s sock %s %s / %s" % (k, t, cut - hs, kind[:3], t, flag, " / ".join(ops)))
                            k += 1
            # write error after a complete handshake, at different points of the traffic
            for kind in ("BrokenPipe", "ConnectionReset"):
                ops = ["attach %s %s" % (o, pt) for o in others]
                ops.append("attach a %s" % pt)
                if t in ("PUB", "XPUB"):
                    ops.append("feed a " + W.tok(W.msg([b"\x01"])))
                    ops += ["settle"] if t == "PUB" else ["recv"]
                if t == "REP":
                    ops += ["feed a " + W.tok(W.msg([b"", b"a0"])), "recv"]
                ops.append("wmode a broken=%s" % kind)
                ops += traffic(t, others)
                out.append("w%d.%s.%s sock %s / %s" % (k, t, kind, t, " / ".join(ops)))
                k += 1
                if nothers == 1:
                    out.append("w%d.%s.%s sock %s mondrop / %s" % (k, t, kind, t, " / ".join(ops)))
                    k += 1
    # a connection that has gone silent without closing (half-open) is superseded by a new connection announcing the same
    # identity while a recv is parked: the socket serves the new connection - what it sends is received
    for t in ("PULL", "SUB", "DEALER", "ROUTER", "REP", "XPUB"):
        pt = PEER[t]
        body = [b"", b"anew"] if t == "REP" else [b"\x01anew"] if t == "XPUB" else [b"anew"]
        for idl in (1, 200):
            for nothers in (0, 1):
                ident = W.tok(b"H" * idl)
                ops = (["attach c %s" % pt] if nothers else []) + ["attach a %s id=%s" % (pt, ident), "recvp 1", "recvp 2",
                       "attach b %s id=%s" % (pt, ident), "feed b " + W.tok(W.msg(body)), "recv"]
                out.append("t%d.%s sock %s / %s" % (k, t, t, " / ".join(ops)))
                k += 1
    # real connections, descriptors counted: a subscriber that stopped reading (so that megabytes are queued for it) and then
    # goes away is released by PUB as promptly as an idle one - the queued data does not keep the connection
    for tr in ("tcp4", "ipc"):
        for nflood in (0, 300):
            ops = ["bind " + tr, "conn 0", "conn 0", "xchg 0", "fdsnow"] + (["flood %d 65536" % nflood] if nflood else []) + ["halfclose 1", "fdsnow", "halfclose 0", "fdsnow"]
            out.append("r%d.PUB rt PUB / %s" % (k, " / ".join(ops)))
            k += 1
    # an orderly close between messages (which the socket does not report: the listed finding) FOLLOWED by a failing write:
    # that failure is an observation, after which the peer is forgotten and released like any other
    for t in ("ROUTER", "DEALER"):
        pt = PEER[t]
        for nothers in (0, 1):
            others = "bc"[:nothers]
            for kind in ("BrokenPipe", "ConnectionReset"):
                ops = ["attach %s %s" % (o, pt) for o in others] + ["attach a %s" % pt]
                ops += ["feed a " + W.tok(b"".join(W.msg(m) for m in peer_msgs(t, b"a"))), "eof a", "recv", "recv", "recv"]
                ops += ["wmode a broken=%s" % kind]
                ops += traffic(t, others)
                out.append("w%d.%s.%s sock %s / %s" % (k, t, kind, t, " / ".join(ops)))
                k += 1
    return out


def compare_filter(line):
    # the model interprets an end of stream after a complete handshake; resets, write errors and cuts
    # inside the handshake are judged by the oracle only
    cid = line.split()[0]
    return cid.startswith("c") and cid.endswith(".eof") and int(cid.split(".")[2]) >= 0


def model_cases(case_lines):
    out = []
    for line in case_lines:
        if not compare_filter(line):
            out.append(line)
            continue
        parts = line.replace(" mondrop / ", " / ", 1).replace(" mon / ", " / ", 1).split(" / ")
        new = []
        for p in parts:
            sp = p.split()
            if sp[0] == "attach" and any(x.startswith("raw=") for x in sp):
                raw = W.untok([x for x in sp if x.startswith("raw=")][0][4:])
                cut = int([x for x in sp if x.startswith("cut=")][0][4:])
                hs = len(W.GREETING + W.ready(sp[2].encode()))
                new.append("attach a %s" % sp[2])
                if cut > hs:
                    new.append("feed a " + W.tok(raw[hs:cut]))
                new.append("eof a")
            else:
                new.append(p)
        out.append(" / ".join(new))
    return out


def norm_impl(o, line):
    return S.canon_impl(o, line)


norm_model = norm_impl


def buffer_empty_at_eof(b):
    """does the frame decoder (zmq_codec.rs) hold no undecoded byte after consuming b?  It takes the flags octet as soon
    as it is there, the size octet(s) once all of them are there, the body once all of it is there."""
    i, n = 0, len(b)
    while True:
        if i == n:
            return True
        flags = b[i]
        i += 1
        need = 8 if flags & 2 else 1
        if n - i < need:
            return n - i == 0
        ln = int.from_bytes(b[i:i + need], "big")
        i += need
        if n - i < ln:
            return n - i == 0
        i += ln


def judge(line, obs, orc):
    if S.bad_obs(obs):
        return "implementation " + str(obs)[:80]
    if "spin" in obs.split() or "hang" in obs:
        return "recv spins or hangs: " + obs[:80]
    cid = line.split()[0]
    if line.split()[1] == "rt":
        fd = [int(x[4:]) for x in obs.split() if x.startswith("fdn=")]
        if len(fd) != 3 or not all(x.endswith(("=ok", "=done")) or x.startswith(("fdn=", "b#")) for x in obs.split()):
            return "real-connection scenario did not run: " + obs[:120]
        if fd[1] != fd[0] - 1 or fd[2] != fd[0] - 2:
            return ("PUB holds on to the connection of a subscriber that has gone away (open descriptors over baseline: %d, after the "
                    "first subscriber left %d, after the second %d)" % (fd[0], fd[1], fd[2]))
        return None
    t, po = S.pair_ops_obs(line, obs)
    if cid.startswith("t"):
        last = [tk for op, tk in po if op[0] == "recv"][-1]
        if not (last.startswith("r=ok:") and last.endswith("616e6577")):
            return ("a connection that superseded a silent one under the same identity (while a recv was parked) is not served: "
                    "its message was not returned: " + str(last)[:80])
        return None
    others = [op[1] for op, tk in po if op[0] == "attach" and op[1] != "a"]
    att_a = [tk for op, tk in po if op[0] == "attach" and op[1] == "a"][0]
    registered = att_a.startswith("att:a=ok")
    recvs = [tk for op, tk in po if op[0] == "recv"]
    sends = [(op, tk) for op, tk in po if op[0] == "send"]
    wires = {}
    for op, tk in po:
        if op[0] == "wire":
            wires[op[1]] = tk.split("=", 1)[1]        # the last snapshot of each connection (a: after the recv block)
    dropped = [tk for op, tk in po if op[0] == "dropped"][0].split("=")[1]
    nerr = sum(1 for r in recvs if r.startswith("r=err"))
    write_fault = cid.startswith("w")
    # (b) at most one error for the one event.  REQ: each out-of-turn recv is its own (caller) error.
    if t != "REQ" and nerr > 1:
        return "recv reported %d errors for one connection event: %s" % (nerr, " ".join(recvs))
    # (a) the other peers are unaffected
    for o in others:
        want = peer_msgs(t, o.encode())
        if t in ("PULL", "SUB", "DEALER", "XPUB"):
            for m in want:
                tok = "r=ok:" + ";".join(W.tok(f) for f in m)
                if tok not in recvs:
                    return "message %s of healthy peer %s was not delivered: %s" % (tok, o, " ".join(recvs))
        elif t == "ROUTER":
            for m in want:
                tok = "r=ok:@%s;" % o + ";".join(W.tok(f) for f in m)
                if tok not in recvs:
                    return "message of healthy peer %s was not delivered: %s" % (o, " ".join(recvs))
            if not any(op[1].startswith("@" + o) and tk == "s=ok" for op, tk in sends) or wires.get(o) != "00025a32":
                return "send to healthy peer %s failed or was not written: %s %s" % (o, sends, wires.get(o))
        elif t == "REP":
            if not any(r.startswith("r=ok:" + W.tok(o.encode() + b"1")) for r in recvs):
                return "request of healthy peer %s was not delivered: %s" % (o, " ".join(recvs))
        elif t in ("PUB",):
            if wires.get(o) != W.msg([b"Z1"]).hex() + W.msg([b"Z2"]).hex() + W.msg([b"Z3"]).hex():
                return "healthy subscriber %s did not get every message: %s" % (o, wires.get(o))
        elif t in ("PUSH", "DEALER", "REQ"):
            if wires.get(o, "-") == "-":
                return "healthy peer %s was never served: %s" % (o, obs[-200:])
    if not registered:
        if dropped != "rw":
            return "a connection that failed its handshake is not released (halves dropped: %s)" % dropped
        if wires.get("a", "-") != "-":
            return "bytes written to a connection that never completed its handshake"
        return None
    # (c) + (d): once the end has been observed
    if t != "REQ":
        error_seen = nerr >= 1
    else:
        # REQ: a recv that follows an accepted request and returns an error (of whatever class) has observed the end
        # of the connection the request went to; an out-of-turn recv (no request outstanding) has observed nothing
        error_seen, owing = False, False
        for op, tk in po:
            if op[0] == "send" and tk == "s=ok":
                owing = True
            elif op[0] == "recv":
                if owing and tk.startswith("r=err"):
                    error_seen = True
                if not tk.startswith("r=pending"):
                    owing = False
    send_err = any(tk.startswith("s=err:Codec") for op, tk in sends)
    # PUB/XPUB publish with try_send, which ignores the result of the flush: a write error is only
    # seen once the buffer has reached the high-water mark, so a broken writer alone is not "observed"
    observed = error_seen or send_err or (t == "PUB" and not write_fault)
    if observed:
        if dropped != "rw":
            return "socket observed the end of the connection but still holds it (halves dropped: %s)" % dropped
        # sends after the observation must not be written to it
        seen = False
        for op, tk in po:
            if op[0] == "recv" and tk.startswith("r=err"):
                seen = True
            if op[0] == "send" and tk.startswith("s=err:Codec"):
                seen = True
        if t == "ROUTER" and error_seen and any(op[1].startswith("@a") and tk == "s=ok" for op, tk in sends):
            return "ROUTER routed a message to a peer whose failure it had reported"
        if t in RECV and t != "REQ" and error_seen and wires.get("a", "-") != "-":
            return "bytes were written to the failed connection after recv had reported its failure: %s" % wires.get("a")[:60]
    else:
        # clean end of stream seen by the fair queue / never looked at: known class when the read side is gone but the rest is kept
        if t in ("PULL", "SUB", "DEALER", "ROUTER", "REP", "XPUB") and not write_fault and dropped == "r":
            # the listed finding: an orderly close that arrives while FramedRead's buffer is empty - between messages, or right
            # after the decoder has consumed a frame's flags / size octets - ends the stream without an error.  An end with
            # undecoded bytes buffered must surface as an error and release the connection.
            sp = cid.split(".")
            if cid.startswith("c") and sp[3] == "eof":
                off = int(sp[2])
                body = b"".join(W.msg(m) for m in peer_msgs(t, b"a"))[:off]
                if buffer_empty_at_eof(body):
                    return "KNOWN:" + KNOWN_EOF
                return ("connection closed %d bytes into the peer's traffic with undecoded bytes buffered: the stream was dropped without any error and "
                        "the socket still holds the peer (halves dropped: %s)" % (off, dropped))
            return "KNOWN:" + KNOWN_EOF
    return None


def nontrivial(line):
    return ".-" not in line.split()[0]


def classify(line, what):
    if what.startswith("KNOWN:"):
        return what[6:]
    t = line.split()[2]
    if "errors for one" in what:
        return "c16-repeated-error-" + t
    if "healthy" in what:
        return "c16-others-affected-" + t
    return "c16-not-released-" + t
