"""C12 - a slow subscriber never blocks the publisher or corrupts its own stream."""
from . import common as C
from . import wire as W
from . import sockcheck as S
from . import scen

PID = "C12"
RULE = ("(i) the real TrySend::try_send on a real FramedWrite over a writer replaying seeded answer scripts (accept k bytes, Pending, Ok(0), errors; "
        "default answer accept-all / stall / k per call / broken) x message sizes {1, 1K, 64K, 127K, 128K, 129K, 200K, 1M}; (ii) real PUB/XPUB with 2-3 "
        "subscribers of which one stalls, stalls-then-resumes, drains k bytes per call or is broken; distinct = distinct script; non-trivial = the "
        "high-water mark is reached at least once (some message refused) or a partial write occurs")
SIZES = [1, 1024, 65536, 130000, 131072, 132000, 200000]
BIG = [1 << 20]
HWM = 131072


def pattern(i, n):
    return bytes(((i * 37 + j * 11 + 5) & 0xff) for j in range(n))


def fnv(b):
    h = 0x811c9dc5
    for x in b:
        h = ((h ^ x) * 0x01000193) & 0xffffffff
    return h


def cases(tier, rng):
    out = []
    k = 0
    for _ in range(260 if tier == "quick" else 3000):
        small = rng.random() < 0.4     # byte-sized partial writes only with small messages (the extracted model is quadratic there)
        ks = [1, 7, 100] if small else [20000, 70000, 200000]
        plan = []
        for _ in range(rng.randint(0, 12)):
            r = rng.random()
            plan.append("p" if r < 0.35 else "w%d" % rng.choice(ks) if r < 0.9 else "z" if r < 0.95 else "e:BrokenPipe")
        dflt = rng.choice(["a", "a", "p", "p", "w%d" % rng.choice(ks), "e:BrokenPipe", "e:ConnectionReset", "z"])
        if small:
            sends = [rng.choice([0, 1, 2, 255, 256, rng.randint(0, 600)]) for _ in range(rng.randint(1, 9))]
        else:
            sends = [rng.choice(SIZES if rng.random() < 0.8 else [rng.randint(0, 300)]) for _ in range(rng.randint(1, 5))]
        out.append("t%d ts plan=%s dflt=%s / %s" % (k, ",".join(plan), dflt, " / ".join("send %d" % s for s in sends)))
        k += 1
    # real publishers with a slow subscriber
    for sock in ("PUB", "XPUB"):
        for _ in range(60 if tier == "quick" else 800):
            ns = rng.randint(2, 3)
            names = "abc"[:ns]
            slow = rng.choice(names)
            ops = ["attach %s SUB" % c for c in names]
            for c in names:
                ops.append("feed %s %s" % (c, W.tok(W.msg([b"\x01"]))))
            ops += ["settle"] if sock == "PUB" else ["recv"] * (ns + 1)
            mode = rng.choice(["stall", "limit=%d" % rng.choice([1, 1000, 50000]), "broken=BrokenPipe", "stall-resume"])
            ops.append("wmode %s %s" % (slow, "stall" if mode == "stall-resume" else mode))
            n = rng.randint(3, 9)
            resume_at = rng.randint(1, n - 1)
            for i in range(n):
                sz = rng.choice([1, 1024, 65536, 130000, 132000] if tier == "quick" else SIZES + BIG)
                ops.append("send r%d.%02x" % (sz, 0x30 + i))
                if mode == "stall-resume" and i == resume_at:
                    ops.append("wmode %s all" % slow)
            ops += ["wire " + c for c in names]
            out.append("p%d.%s.%s sock %s / %s" % (k, slow, mode.split("=")[0], sock, " / ".join(ops)))
            k += 1
    # a stalled subscriber whose buffer is at the high-water mark sends another subscription: the publisher's reader task
    # must not get stuck on that connection, the next publish returns promptly and reaches the healthy subscriber
    for sock in ("PUB", "XPUB"):
        for extra in ([b"\x01A"], [b"\x00"], [b"\x01A"] * 3):
            ops = ["attach a SUB", "attach b SUB", "feed a " + W.tok(W.msg([b"\x01"])), "feed b " + W.tok(W.msg([b"\x01"]))]
            ops += ["settle"] if sock == "PUB" else ["recv"] * 3
            ops += ["wmode a stall", "send r70000.30", "send r70000.31", "send r70000.32"]
            ops += ["feed a " + W.tok(b"".join(W.msg([e]) for e in extra))]
            ops += ["settle"] if sock == "PUB" else ["recv"] * (len(extra) + 1)
            ops += ["send r10.33", "send r10.34", "wire a", "wire b"]
            out.append("p%d.a.stall sock %s / %s" % (k, sock, " / ".join(ops)))
            k += 1
    # a subscriber whose connection broke (noticed by the publisher's own write, at the high-water mark) comes back under
    # the same identity: the new connection is a subscriber like any other from then on
    for sock in ("PUB", "XPUB"):
        for idl in (1, 16):
            ident = W.tok(b"S" * idl)
            sub = W.tok(W.msg([b"\x01"]))
            after = ["settle"] if sock == "PUB" else ["recv"]
            ops = ["attach a SUB id=" + ident, "attach b SUB", "feed a " + sub] + after + ["feed b " + sub] + after
            ops += ["wmode a broken=BrokenPipe", "send r70000.41", "send r70000.42", "send r70000.43", "send r10.44", "dropped a", "wire b"]
            ops += ["attach c SUB id=" + ident, "feed c " + sub] + after
            ops += ["send 6d31", "send 6d32", "send 6d33;74", "wire c", "wire b", "dropped c"]
            out.append("g%d sock %s / %s" % (k, sock, " / ".join(ops)))
            k += 1
    # a subscriber that does not take anything for a while and then drains: what comes out is what fitted below the write
    # mark plus one message - the rest was dropped whole, not kept
    for sock in ("PUB", "XPUB"):
        for size, n in ((70000, 6), (20000, 12), (132000, 3), (1000, 200), (1000, 1800), (100, 4000)):
            sub = W.tok(W.msg([b"\x01"]))
            after = ["settle"] if sock == "PUB" else ["recv"]
            ops = ["attach a SUB", "attach b SUB", "feed a " + sub] + after + ["feed b " + sub] + after + ["wmode a stall"]
            ops += ["send r%d.%02x" % (size, 0x41 + (i % 20)) for i in range(n)]
            ops += ["wire b", "wmode a all", "send 7a", "wire a", "send 7931", "send 7932", "wire a", "dropped a"]
            out.append("h%d.%d.%d sock %s / %s" % (k, size, n, sock, " / ".join(ops)))
            k += 1
    out += fan_cases(tier, rng, k)
    return out


def fan_cases(tier, rng, k):
    """PUB / XPUB fan-out with one scripted connection per subscriber, compared with Model/PubFan.v: subscriptions per
    subscriber, standing answers and queued answers changing at arbitrary points, messages around the high-water mark."""
    out = []
    topics = [b"", b"A", b"AB", b"B", b"C"]
    for sock in ("PUB", "XPUB"):
        for _ in range(70 if tier == "quick" else 1200):
            ns = rng.randint(2, 3)
            names = "abc"[:ns]
            big = rng.random() < 0.6
            ops = ["attach %s SUB" % c for c in names]

            def feed(c, frames_list):
                o = ["feed %s %s" % (c, W.tok(b"".join(W.msg(fr) for fr in frames_list)))]
                return o + (["settle"] if sock == "PUB" else ["recv"] * len(frames_list))
            for c in names:
                subs = [[b"\x01" + rng.choice(topics)] for _ in range(rng.randint(0, 2))] or ([[b"\x01"]] if rng.random() < 0.7 else [])
                if subs:
                    ops += feed(c, subs)
            n = rng.randint(4, 14)
            for i in range(n):
                r = rng.random()
                c = rng.choice(names)
                if r < 0.5:
                    first = rng.choice([b"A", b"AB", b"ABC", b"B", b"", b"Z"]) + bytes([0x30 + i])
                    if big:
                        body = W.tok(first) + "+r%d.%02x" % (rng.choice([65536, 70000, 130000, 131072, 132000, 300]), 0x40 + i)
                    else:
                        body = W.tok(first) + "+r%d.%02x" % (rng.choice([0, 1, 255, 256, 600]) + 1, 0x40 + i)
                    if rng.random() < 0.25:
                        body += ";" + W.tok(b"tail") + (";-" if rng.random() < 0.3 else "")
                    ops.append("send " + body)
                elif r < 0.7:
                    lim = rng.choice([20000, 50000, 70000]) if big else rng.choice([1, 7, 100])
                    ops.append("wmode %s %s" % (c, rng.choice(["stall", "stall", "all", "limit=%d" % lim, "broken=BrokenPipe",
                                                                "broken=ConnectionReset", "zero"])))
                elif r < 0.8:
                    ws = [20000, 70000, 200000] if big else [1, 7, 100]
                    plan = [rng.choice(["p", "w%d" % rng.choice(ws), "w%d" % rng.choice(ws), "z", "e:ConnectionReset", "e:BrokenPipe"])
                            for _ in range(rng.randint(1, 4))]
                    ops.append("wplan %s %s" % (c, ",".join(plan)))
                elif r < 0.9:
                    t = rng.choice(topics)
                    ops += feed(c, [[rng.choice([b"\x01", b"\x00", b"\x00", b"\x02"]) + t]] if rng.random() < 0.85 else [[b"\x01" + t, b"x"]])
                else:
                    ops.append("wire " + c)
            for c in names:
                ops += ["wire " + c, "dropped " + c]
            out.append("f%d sock %s / %s" % (k, sock, " / ".join(ops)))
            k += 1
    return out


def compare_filter(line):
    return line.split()[1] == "ts" or line.startswith("f")


def model_cases(case_lines):
    out = []
    for line in case_lines:
        if not line.startswith("f"):
            out.append(line)
            continue
        parts = [p.split() for p in line.split(" / ")]
        ops = []
        for op in parts[1:]:
            if op[0] == "attach":
                ops.append("attach " + op[1])
            elif op[0] == "feed":
                msgs, cur = [], []
                for fl, body in scen.parse_frames_prefix(W.untok(op[2])):
                    cur.append(body)
                    if not fl & 1:
                        msgs.append(cur)
                        cur = []
                ops += ["sub %s %s" % (op[1], ";".join(W.tok(f) for f in m)) for m in msgs]
            elif op[0] == "wmode":
                m = op[2]
                a = "a" if m == "all" else "p" if m == "stall" else "z" if m == "zero" else "w" + m[6:] if m.startswith("limit=") else "e:" + m.split("=")[1]
                ops.append("mode %s %s" % (op[1], a))
            elif op[0] == "wplan":
                ops.append("plan %s %s" % (op[1], op[2]))
            elif op[0] == "send":
                ops.append("pub " + op[1])
            elif op[0] in ("wire", "dropped"):
                ops.append("%s %s" % (op[0], op[1]))
        out.append("%s pubfan / %s" % (parts[0][0], " / ".join(ops)))
    return out


def norm_impl(o, line):
    if line.startswith("f"):
        keep = []
        for t in o.split():
            if t.startswith("wire:"):
                name, hx = t.split("=", 1)
                b = bytes.fromhex(hx) if hx != "-" else b""
                keep.append("%s=%d:%08x" % (name, len(b), fnv(b)))
            elif t.startswith("dropped:"):
                name, fl = t.split("=", 1)
                keep.append("%s=%s" % (name, "w" if "w" in fl else "-"))
            elif t.startswith("s="):
                keep.append(t)
        return " ".join(keep)
    return " ".join(t for t in o.split() if not t.startswith("calls="))


def judge(line, obs, orc):
    if S.bad_obs(obs):
        return "implementation " + str(obs)[:80]
    sp = line.split()
    if sp[1] == "ts":
        lens = [int(x.split()[1]) for x in line.split(" / ")[1:]]
        toks = obs.split()
        res = toks[:len(lens)]
        kv = dict(t.split("=") for t in toks[len(lens):])
        acc = b"".join(W.msg([pattern(i, n)]) for i, (n, r) in enumerate(zip(lens, res)) if r == "ok")
        if int(kv["written"]) + int(kv["buffered"]) != len(acc) or int(kv["sum"], 16) != fnv(acc):
            return "written ++ buffered is not the concatenation of the accepted whole messages"
        # a message may be refused for lack of room only once the buffer has reached the high-water mark: what is buffered is
        # at most what was accepted before, so a BufferFull below that total is a drop that the property does not allow
        acc_before = 0
        for i, (n, r) in enumerate(zip(lens, res)):
            if r == "err:BufferFull" and acc_before < HWM:
                return ("message %d was dropped as 'buffer full' although at most %d octets had been accepted for this connection "
                        "(high-water mark %d)" % (i, acc_before, HWM))
            if r == "ok":
                acc_before += len(W.msg([pattern(i, n)]))
        maxenc = max([len(W.msg([pattern(0, n)])) for n in lens] + [0])
        if int(kv["buffered"]) >= HWM + maxenc:
            return "buffer holds %s bytes: above high-water mark + one message" % kv["buffered"]
        if "dflt=a" in sp and "plan=" in sp[2] and sp[2] == "plan=":
            if any(r != "ok" for r in res) or kv["buffered"] != "0":
                return "an accepting connection missed a message or kept bytes buffered"
        return None
    if sp[0].startswith("f"):
        return fan_judge(line, obs)
    if sp[0].startswith("h"):
        t, po = S.pair_ops_obs(line, obs)
        _, size, n = sp[0].split(".")
        size, n = int(size), int(n)
        for op, tk in po:
            if op[0] == "send" and tk != "s=ok":
                return "publishing did not return promptly with success: " + str(tk)
        wa = [tk for op, tk in po if op[0] == "wire" and op[1] == "a"][0].split("=", 1)[1]
        got = len(bytes.fromhex(wa)) if wa != "-" else 0
        one = len(W.msg([b"x" * size]))
        if got > HWM + one + 3:
            return ("a subscriber that took nothing while %d x %d octets were published received %d octets when it drained: more than "
                    "the high-water mark plus one message was held for it" % (n, size, got))
        # whole messages only, in order, then the last small one
        kept = 0
        while (kept + 1) * one <= got:
            kept += 1
        if got != kept * one + 3 and got != kept * one:
            return "the drained stream of the stalled subscriber is not a sequence of whole messages (%d octets, message size %d)" % (got, one)
        # it is a subscriber like any other again: what is published now reaches it, and its connection is still held
        wa2 = [tk for op, tk in po if op[0] == "wire" and op[1] == "a"][1].split("=", 1)[1]
        if wa2 != (W.msg([b"y1"]) + W.msg([b"y2"])).hex():
            return ("a subscriber that was slow for %d publishes and then accepts every write again does not get what is published "
                    "afterwards: %s" % (n, wa2[:60]))
        da = [tk for op, tk in po if op[0] == "dropped" and op[1] == "a"][0]
        if "w" in da.split("=", 1)[1]:
            return "the publisher closed the connection of a subscriber that had merely been slow: " + da
        return None
    if sp[0].startswith("g"):
        t, po = S.pair_ops_obs(line, obs)
        for op, tk in po:
            if op[0] == "send" and tk != "s=ok":
                return "publishing did not return promptly with success: " + str(tk)
        wc = [tk for op, tk in po if op[0] == "wire" and op[1] == "c"][0].split("=", 1)[1]
        want = (W.msg([b"m1"]) + W.msg([b"m2"]) + W.msg([b"m3", b"t"])).hex()
        if wc != want:
            return ("a subscriber that came back under the identity of a connection the publisher had found broken did not get "
                    "every matching message afterwards: got %s, expected %s" % (wc[:80], want))
        dc = [tk for op, tk in po if op[0] == "dropped" and op[1] == "c"][0]
        if "w" in dc.split("=", 1)[1]:
            return "the healthy new connection of a returning subscriber was dropped by the publisher: " + dc
        return None
    # real publisher
    slow = sp[0].split(".")[1]
    t, po = S.pair_ops_obs(line, obs)
    sends = [S.frames_of_tok(op[1]) for op, tk in po if op[0] == "send"]
    for op, tk in po:
        if op[0] == "send" and tk != "s=ok":
            return "publishing did not return promptly with success: " + str(tk)
    for op, tk in po:
        if op[0] != "wire":
            continue
        c = op[1]
        hx = tk.split("=", 1)[1]
        got = bytes.fromhex(hx) if hx != "-" else b""
        if c != slow:
            if got != b"".join(W.msg(m) for m in sends):
                return "healthy subscriber %s missed or received altered messages while %s was slow" % (c, slow)
        else:
            # a prefix of a well-formed stream of whole messages forming a subsequence of what was published
            frames = scen.parse_frames_prefix(got)
            whole = [f for fl, f in frames]
            j = 0
            for body in whole:
                while j < len(sends) and sends[j][0] != body:
                    j += 1
                if j == len(sends):
                    return "slow subscriber's stream is not an order-preserving subsequence of the published messages"
                j += 1
            consumed = sum(len(W.msg([b])) for b in whole)
            tail = got[consumed:]
            if tail:
                # must be the beginning of one more published message
                if not any(W.msg(m).startswith(tail) for m in sends):
                    return "slow subscriber's stream ends in bytes that are not the start of a published message"
    return None


def fan_judge(line, obs):
    """Property oracle for the fan-out cases, independent of the model: publishing always succeeds at once; what a
    subscriber's connection got is a prefix of a stream of whole messages forming an order-preserving subsequence of the
    published messages that matched one of its subscriptions at that time (subscriptions tracked here, separately);
    a subscriber whose connection always accepted got exactly all of them."""
    t, po = S.pair_ops_obs(line, obs)
    subs, got, matched, touched = {}, {}, {}, set()
    for op, tk in po:
        if op[0] == "attach":
            subs[op[1]], got[op[1]], matched[op[1]] = [], b"", []
        elif op[0] == "feed":
            cur = []
            for fl, body in scen.parse_frames_prefix(W.untok(op[2])):
                cur.append(body)
                if not fl & 1:
                    if len(cur) == 1 and cur[0][:1] == b"\x01":
                        subs[op[1]].append(cur[0][1:])
                    elif len(cur) == 1 and cur[0][:1] == b"\x00" and cur[0][1:] in subs[op[1]]:
                        subs[op[1]].remove(cur[0][1:])
                    cur = []
        elif op[0] in ("wmode", "wplan"):
            touched.add(op[1])
        elif op[0] == "send":
            if tk != "s=ok":
                return "publishing did not return promptly with success: " + str(tk)
            fr = S.frames_of_tok(op[1])
            for c in subs:
                if any(fr[0].startswith(x) for x in subs[c]):
                    matched[c].append(W.msg(fr))
        elif op[0] == "wire":
            hx = tk.split("=", 1)[1]
            got[op[1]] += bytes.fromhex(hx) if hx != "-" else b""
    for c in got:
        if c not in touched:
            if got[c] != b"".join(matched[c]):
                return "subscriber %s, whose connection accepted every write, missed or received altered messages" % c
            continue
        rest, j = got[c], 0
        while rest:
            while j < len(matched[c]) and not (rest.startswith(matched[c][j]) or matched[c][j].startswith(rest)):
                j += 1
            if j == len(matched[c]):
                return "subscriber %s's stream is not an order-preserving sequence of whole matching messages" % c
            rest = rest[len(matched[c][j]):]
            j += 1
    return None


def nontrivial(line):
    return True


def classify(line, what):
    return "c12-" + line.split()[1]
