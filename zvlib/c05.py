"""C05 - receive delivers each peer's messages exactly once, whole and in order."""
from . import common as C
from . import wire as W
from . import scen, fqgen
from . import sockcheck as S

PID = "C05"
EXHAUSTIVE = {"quick": False, "thorough": False}
RULE = ("(i) the real FairQueue over scripted streams: ALL label schedules of depth 5 (quick) / 6 (thorough) for 2 streams incl. events "
        "injected inside the poll window (exhaustive at that depth), seeded random schedules to depth 60 with 1-4 streams, removals and "
        "spurious wakes; (ii) real sockets of the six receiving types with 1-4 scripted peers, segmented arrivals, peers attached and "
        "closed between polls; distinct = distinct schedule; non-trivial = >= 2 streams or a window event")


def cases(tier, rng):
    out = []
    k = 0
    depth = 5 if tier == "quick" else 6
    for seq in fqgen.enumerate_schedules(2, depth):
        out.append("e%d fq / %s / D" % (k, " / ".join(fqgen.concretise(seq))))
        k += 1
    for _ in range(1500 if tier == "quick" else 30000):
        n = rng.randint(1, 4)
        seq = fqgen.random_schedule(rng, n, rng.randint(5, 60), removes=rng.random() < 0.3, spurious=rng.random() < 0.3)
        out.append("f%d fq%s / %s / D" % (k, " noblock" if rng.random() < 0.1 else "", " / ".join(seq)))
        k += 1
    # many registered streams (more than any plausible per-call budget): the item of the last one comes out
    for n in (33, 40, 70, 100, 257):
        ins = " / ".join("I%d" % i for i in range(1, n + 1))
        for polls in (1, 2, 3):
            out.append("n%d fq / %s / %s / A%d.1 / D" % (k, ins, " / ".join(["P"] * polls), n))
            k += 1
            out.append("n%d fq / %s / A%d.1 / A%d.2 / %s / D" % (k, ins, n, n // 2, " / ".join(["P"] * polls)))
            k += 1
    for t in ("PULL", "SUB", "DEALER", "ROUTER", "REP", "XPUB"):
        for _ in range(250 if tier == "quick" else 4000):
            out.append("s%d %s" % (k, scen.scenario(rng, t)))
            k += 1
        # no peer leaves: at the end the socket is drained, so every complete message must have come out
        for _ in range(150 if tier == "quick" else 2500):
            line = scen.scenario(rng, t, allow_eof=False)
            out.append("d%d %s" % (k, line + " / recv" * 24))
            k += 1
        # every complete message is consumed: also by a recv that parked (after an abandoned one, with another waker)
        # before the message arrived
        body = [b"", b"late"] if t == "REP" else [b"\x01late"] if t == "XPUB" else [b"late"]
        for polls in (1, 2):
            out.append("z%d sock %s / attach a %s / recvp %d / recvw a %s / recv" % (k, t, scen.PEER[t], polls, W.tok(W.msg(body))))
            k += 1
    # several hundred messages, each picked up by a recv that is polled once and dropped: every one comes out, once, in order
    for t in ("PULL", "SUB", "DEALER", "ROUTER", "REP", "XPUB"):
        nmsg = 250 if tier == "quick" else 1200

        def mk(i_):
            tag = b"%04d" % i_
            return [b"", tag] if t == "REP" else [b"\x01" + tag] if t == "XPUB" else [tag]
        feed = W.tok(b"".join(W.msg(mk(i_)) for i_ in range(nmsg)))
        out.append("l%d.%d sock %s / attach a %s / feed a %s / %s / recv / recv" % (k, nmsg, t, scen.PEER[t], feed, " / ".join(["recvp 1"] * (nmsg + 20))))
        k += 1
    # a connection announcing the identity of a connection that is still registered takes its place: what the new
    # connection sends must come out (old connection idle / already read / with a message read before the take-over)
    for t in ("PULL", "SUB", "DEALER", "ROUTER", "REP", "XPUB"):
        pt = scen.PEER[t]

        def m(tag):
            return W.tok(W.msg([b"", tag] if t == "REP" else [b"\x01" + tag] if t == "XPUB" else [tag]))
        rcv = "recv / send 6f6b" if t == "REP" else "recv"
        for idl in (1, 9, 255):
            ident = W.tok(b"I" * idl)
            for pre in ("", "feed a %s / %s / " % (m(b"old1"), rcv)):
                out.append("y%d sock %s / attach a %s id=%s / %sattach b %s id=%s / feed b %s / %s / feed b %s / %s" %
                           (k, t, pt, ident, pre, pt, ident, m(b"new1"), rcv, m(b"new2"), rcv))
                k += 1
    return out


def compare_filter(line):
    return not line.startswith(("y", "l"))      # the World model assumes distinct identities; l: long runs, oracle only


def model_cases(case_lines):
    import re
    return [re.sub(r"recvw (\S+) (\S+)", r"feed \1 \2 / recv", l) for l in case_lines]


def norm_impl(o, line):
    if line.split()[1] == "sock":
        return S.canon_impl(o, line)
    # C05 speaks about what is delivered and in which order, not about wake-ups (C06): drop the wake
    # counts and the drain phase from the comparison
    return " ".join(t.split("@")[0] for t in o.split() if not t.startswith(("D[", "left=")))


def fq_judge(line, obs):
    labels = [x.strip() for x in line.split(" / ")[1:]]
    arrived = {}
    removed = set()
    inserted = set()
    for lab in labels:
        for p in (lab[lab.index("~") + 1:].split("~") if lab.startswith("P:") and "~" in lab else [lab]):
            if p.startswith("A"):
                k, x = p[1:].split(".")
                arrived.setdefault(int(k), []).append(int(x))
            elif p.startswith("R"):
                removed.add(int(p[1:]))
            elif p.startswith("I"):
                inserted.add(int(p[1:]))
    delivered = {}
    for tk in obs.split():
        body = tk.split("@")[0]
        items = body[2:-1].split(",") if body.startswith("D[") else [body]
        for it in items:
            if it.startswith("R") and "." in it:
                k, x = it[1:].split(".")
                delivered.setdefault(int(k), []).append(int(x))
        if "spin" in body:
            return "poll_next spins"
    for k, d in delivered.items():
        a = arrived.get(k, [])
        if d != a[:len(d)]:
            return "stream %d: delivered %s, arrived %s (lost, duplicated or reordered)" % (k, d, a)
    left = obs.split()[-1]
    if left != "left=-":
        for kv in left[5:].split(","):
            kk, n = kv.split(":")
            if int(kk) in removed:
                continue
            if len(delivered.get(int(kk), [])) + int(n) != len(arrived.get(int(kk), [])):
                return "stream %s: delivered + left != arrived" % kk
            if int(n) > 0 and " noblock" not in line.split(" / ")[0] and int(kk) in inserted:
                # the drain re-polls the receiver whenever its waker was invoked, until nothing moves any more
                return ("stream %s: %s complete item(s) of a registered stream were never returned although the receiver kept "
                        "receiving (re-polled whenever woken)" % (kk, n))
    return None


def sock_judge(line, obs):
    """per-connection: the messages returned from a connection are, in order, the complete messages it sent
    (each consumed at most once: returned or reported as one error)"""
    t, po = S.pair_ops_obs(line, obs)
    fed = {}
    for op, tk in po:
        if op[0] == "attach":
            fed[op[1]] = b""
        elif op[0] == "feed":
            fed[op[1]] = fed.get(op[1], b"") + W.untok(op[2])
    from .c09 import scen_parse
    msgs = {c: scen_parse(b) for c, b in fed.items()}
    if t in ("PULL", "SUB", "DEALER", "XPUB"):
        # the returned sequence must be an interleaving of prefixes of the per-connection sequences
        # (search over pointer tuples: equal messages on different connections are ambiguous)
        names = sorted(msgs)
        states = {tuple(0 for _ in names)}
        for op, tk in po:
            if op[0] == "recv" and tk and tk.startswith("r=ok:"):
                fr = S.frames_of_tok(tk[5:])
                nxt = set()
                for st in states:
                    for i, c in enumerate(names):
                        if st[i] < len(msgs[c]) and msgs[c][st[i]] == fr:
                            nxt.add(st[:i] + (st[i] + 1,) + st[i + 1:])
                if not nxt:
                    return "recv returned %s which is not the next message of any connection" % tk[:100]
                states = nxt
    elif t == "ROUTER":
        ann = {}
        for op, tk in po:
            if op[0] == "attach":
                for o in op[3:]:
                    if o.startswith("id="):
                        ann[op[1]] = W.untok(o[3:])
        ptr = {c: 0 for c in msgs}
        for op, tk in po:
            if op[0] == "recv" and tk and tk.startswith("r=ok:"):
                fr = tk[5:].split(";")
                if fr[0].startswith("@"):
                    who = fr[0][1:]
                else:
                    who = next((c for c, a in ann.items() if a == W.untok(fr[0])), None)
                if who is None or who not in msgs:
                    return "ROUTER labelled a message with an unknown identity: " + tk[:100]
                rest = [W.untok(x) for x in fr[1:]]
                if ptr[who] >= len(msgs[who]) or msgs[who][ptr[who]] != rest:
                    return "message labelled %s is not that connection's next message: %s" % (who, tk[:100])
                ptr[who] += 1
    elif t == "REP":
        # every returned request is the payload part (a proper suffix) of a distinct message some connection sent
        pool = [m for c in msgs for m in msgs[c]]
        for op, tk in po:
            if op[0] == "recv" and tk and tk.startswith("r=ok:"):
                fr = S.frames_of_tok(tk[5:])
                def payload(m):
                    i = next((j for j, f in enumerate(m) if f == b""), 0)
                    return m[i + 1:]
                hit = next((i for i, m in enumerate(pool) if payload(m) == fr), None)
                if hit is None:
                    return "REP returned a request that is not the payload of any message a connection sent: " + tk[:100]
                pool.pop(hit)
    return None


def drained_judge(line, obs):
    """scenario without departures, ended by enough recvs to drain the socket: every complete message that
    was put on the wire has been consumed exactly once (returned, or reported as one error)"""
    t, po = S.pair_ops_obs(line, obs)
    fed = {}
    for op, tk in po:
        if op[0] == "attach":
            fed[op[1]] = b""
        elif op[0] == "feed":
            fed[op[1]] = fed.get(op[1], b"") + W.untok(op[2])
    from .c09 import scen_parse
    total = sum(len(scen_parse(b)) for b in fed.values())
    recvs = [tk for op, tk in po if op[0] == "recv"]
    if not recvs or recvs[-1] != "r=pending":
        return None
    consumed = sum(1 for r in recvs if r.startswith(("r=ok", "r=err")))
    if consumed != total:
        return "%d complete message(s) were put on the wire by connected peers, %d were returned or reported although the socket was drained" % (total, consumed)
    return None


def judge(line, obs, orc):
    if S.bad_obs(obs):
        return "implementation " + str(obs)[:80]
    if line.split()[1] == "fq":
        return fq_judge(line, obs)
    if line.startswith("l"):
        nmsg = int(line.split()[0].split(".")[1])
        got = [tk.split("=ok:", 1)[1].split(";")[-1][-8:] for tk in obs.split() if tk.startswith(("r=ok:", "rp=ok:"))]
        want = [(b"%04d" % i_).hex() for i_ in range(nmsg)]
        if got != want:
            miss = [bytes.fromhex(w).decode() for w in want if w not in got][:6]
            return "%d messages on one connection: %d were returned; missing %s%s" % (nmsg, len(got), miss, "" if sorted(got) == got else "; order changed")
        return None
    if line.startswith("y"):
        got = [t for t in obs.split() if t.startswith("r=")]
        want = ["6e657731", "6e657732"]
        tail = got[-2:]
        if len(tail) != 2 or not all(t.startswith("r=ok:") and t.endswith(w) for t, w in zip(tail, want)):
            return ("messages sent by a connected peer (a connection that announced the identity of an earlier, still registered "
                    "connection) were not returned by recv in order: " + " ".join(got)[-160:])
        return None
    if line.startswith("z"):
        toks = obs.split()
        if "lost-wakeup" in obs or not any(t.startswith("r=ok:") and t.endswith("6c617465") for t in toks):
            return "a complete message arrived while recv was parked (after an abandoned recv) and was never returned: " + obs[-80:]
        return None
    r = sock_judge(line, obs)
    if r is None and line.startswith("d"):
        r = drained_judge(line, obs)
    return r


def nontrivial(line):
    return "~" in line or line.count("attach") >= 2 or " I2" in line


def classify(line, what):
    return "c05-" + line.split()[1]


norm_model = norm_impl
