"""C14 - dropping a pending recv loses nothing and leaves the socket usable."""
from . import common as C
from . import wire as W
from . import scen
from . import sockcheck as S
from .c09 import scen_parse

PID = "C14"
EXHAUSTIVE = {"quick": True, "thorough": True}
RULE = ("for each of the seven socket types with recv: a scripted peer delivers messages cut at EVERY byte position (messages up to 40 bytes: "
        "exhaustive over cut position x number of polls 0..3 after which the recv future is dropped), abandoned recvs repeated after every chunk, "
        "then the socket is drained by completed recvs; a recv that parks after the abandoned one, polled with a fresh waker and re-polled only when that waker is woken, while the remaining bytes arrive (lost wake-up = unusable socket); REQ/REP additionally: the send/recv that follows an abandoned recv; seeded scenarios with "
        "2-3 peers; distinct = distinct (type, cut, polls); non-trivial = the abandoned recv was polled at least once while bytes of a message were pending")
TYPES = ["PULL", "SUB", "DEALER", "ROUTER", "REP", "XPUB", "REQ"]


def msgs_for(t):
    if t == "REP":
        return [[b"", b"first", b"x"], [b"id", b"", b"second"]]
    if t == "REQ":
        return [[b"", b"reply-1"]]
    if t == "XPUB":
        return [[b"\x01topic"], [b"\x00topic"]]
    return [[b"first", b"", b"x"], [b"second"]]


def cases(tier, rng):
    out = []
    k = 0
    for t in TYPES:
        ms = msgs_for(t)
        stream = b"".join(W.msg(m) for m in ms)
        for cut in range(0, len(stream) + 1):
            for polls in range(0, 4):
                ops = ["attach a " + scen.PEER[t]]
                if t == "REQ":
                    ops += ["send 7265712d31", "wire a"]
                if cut > 0:
                    ops.append("feed a " + W.tok(stream[:cut]))
                ops.append("recvp %d" % polls)
                if t == "REQ":
                    ops += ["send 7265712d32", "wire a"]
                if t == "REP":
                    ops += ["send 6f6f70", "wire a"]
                if cut < len(stream):
                    ops.append("feed a " + W.tok(stream[cut:]))
                ops += ["recvp %d" % polls] if polls == 0 else []
                ops += ["recv"] * (len(ms) + 1)
                if t == "REQ":
                    ops += ["send 7265712d33", "wire a"]
                out.append("x%d sock %s / %s" % (k, t, " / ".join(ops)))
                k += 1
        # abandoned recv after every byte
        for polls in (1, 2):
            ops = ["attach a " + scen.PEER[t]]
            if t == "REQ":
                ops += ["send 7265712d31"]
            for i in range(len(stream)):
                ops.append("feed a " + W.tok(stream[i:i + 1]))
                ops.append("recvp %d" % polls)
            ops += ["recv"] * (len(ms) + 1)
            out.append("y%d sock %s / %s" % (k, t, " / ".join(ops)))
            k += 1
    # a recv that parks AFTER an abandoned recv, polled with a different waker, must be woken when the bytes arrive
    for t in TYPES:
        ms = msgs_for(t)
        stream = b"".join(W.msg(m) for m in ms)
        for cut in range(0, len(stream)):
            for polls in (1, 2, 3):
                ops = ["attach a " + scen.PEER[t]]
                if t == "REQ":
                    ops += ["send 7265712d31", "wire a"]
                if cut > 0:
                    ops.append("feed a " + W.tok(stream[:cut]))
                ops.append("recvp %d" % polls)
                ops.append("recvw a " + W.tok(stream[cut:]))
                ops += ["recv"] * len(ms)
                out.append("z%d sock %s / %s" % (k, t, " / ".join(ops)))
                k += 1
    # more than a MiB through one socket, every other recv abandoned after a single poll (which may already hold a message):
    # every message is still returned exactly once, in order
    for t in ("PULL", "DEALER", "ROUTER", "SUB"):
        nmsg, size = 20, 60000
        ops = ["attach a " + scen.PEER[t]]
        for i in range(nmsg):
            ops.append("feed a " + W.tok(W.msg([b"%02d" % i + b"z" * size])))
        for variant in (0, 1):
            o2 = list(ops)
            for i in range(nmsg):
                o2 += ["recvp 1"] if variant == 0 else (["recvp 1", "recv"] if i % 2 == 0 else ["recvp 2"])
            o2 += ["recv"] * 3
            out.append("b%d sock %s / %s" % (k, t, " / ".join(o2)))
            k += 1
    # REP: a request has been returned (a reply is owed); a further recv is started, polled and abandoned: the protocol
    # state is as if that call had not been made - the reply still goes out, with the request's envelope
    for pre, pt in (([], "REQ"), ([b"rid"], "DEALER"), ([b"r1", b"r" * 255], "DEALER")):
        for polls in (0, 1, 2, 3):
            for more in (False, True):
                req = W.msg(pre + [b"", b"ask"])
                ops = ["attach a " + pt, "feed a " + W.tok(req), "recv", "recvp %d" % polls]
                if more:
                    ops += ["feed a " + W.tok(W.msg(pre + [b"", b"ask2"])[:3]), "recvp %d" % polls]
                ops += ["send 616e73", "wire a"]
                out.append("w%d sock REP / %s" % (k, " / ".join(ops)))
                k += 1
    # a long run of messages (several hundred) each picked up by a recv that is polled ONCE and then dropped: whatever the
    # count, nothing is lost, duplicated or reordered
    for t in ("PULL", "SUB", "DEALER", "ROUTER", "REP", "XPUB"):
        pt = scen.PEER[t]
        nmsg = 200 if tier == "quick" else 700

        def mk(i_):
            tag = b"%04d" % i_
            return [b"", tag] if t == "REP" else [b"\x01" + tag] if t == "XPUB" else [tag]
        feed = W.tok(b"".join(W.msg(mk(i_)) for i_ in range(nmsg)))
        ops = ["attach a %s" % pt, "feed a " + feed] + ["recvp 1"] * (nmsg + 30) + ["recv"] * 3
        out.append("c%d.%d sock %s / %s" % (k, nmsg, t, " / ".join(ops)))
        k += 1
    # a recv is polled and abandoned; then a connection under the SAME identity as a still registered one arrives and sends:
    # the socket is as usable as if the abandoned call had never been made - the new connection's messages come out
    for t in ("PULL", "SUB", "DEALER", "ROUTER", "REP", "XPUB"):
        pt = scen.PEER[t]
        body = [b"", b"late"] if t == "REP" else [b"\x01late"] if t == "XPUB" else [b"late"]
        for polls in (1, 2, 3):
            for idl in (1, 16):
                for early in (False, True):
                    ident = W.tok(b"K" * idl)
                    ops = ["attach a %s id=%s" % (pt, ident)]
                    if early:       # the first connection has delivered something before
                        ops += ["feed a " + W.tok(W.msg([b"", b"first"] if t == "REP" else [b"\x01first"] if t == "XPUB" else [b"first"])), "recv"]
                        if t == "REP":
                            ops += ["send 6f6b"]
                    ops += ["recvp %d" % polls, "attach b %s id=%s" % (pt, ident), "feed b " + W.tok(W.msg(body)), "recv"]
                    out.append("k%d sock %s / %s" % (k, t, " / ".join(ops)))
                    k += 1
    for t in TYPES:
        for _ in range(120 if tier == "quick" else 2500):
            line = scen.scenario(rng, t, allow_eof=False)
            parts = line.split(" / ")
            new = []
            for p in parts:
                new.append(p)
                if p.startswith("feed") and rng.random() < 0.6:
                    new.append("recvp %d" % rng.randint(0, 3))
            out.append("r%d %s" % (k, " / ".join(new)))
            k += 1
    return out


def norm_impl(o, line):
    return S.canon_impl(o, line)


def judge(line, obs, orc):
    if S.bad_obs(obs):
        return "implementation " + str(obs)[:80]
    t, po = S.pair_ops_obs(line, obs)
    kind = line.split()[0][0]
    if "r=lost-wakeup" in obs:
        return "a recv parked after an abandoned recv was never woken although the bytes of a complete message had arrived (socket unusable for a task awaiting it)"
    if kind == "c":
        nmsg = int(line.split()[0].split(".")[1])
        got = []
        for op, tk in po:
            if op[0] in ("recv", "recvp") and tk and "=ok:" in tk:
                got.append(tk.split("=ok:", 1)[1].split(";")[-1][-8:])
        want = [(b"%04d" % i_).hex() for i_ in range(nmsg)]
        if got != want:
            miss = [bytes.fromhex(w).decode() for w in want if w not in got][:6]
            return ("%d messages each picked up by a recv polled once and dropped: %d came out; missing %s%s" %
                    (nmsg, len(got), miss, "" if sorted(got) == got else "; order changed"))
        return None
    if kind == "k":
        last = [tk for op, tk in po if op[0] == "recv"][-1]
        if not (last.startswith("r=ok:") and last.endswith("6c617465")):
            return ("after an abandoned recv, the message of a connection that took over the identity of a still registered "
                    "connection was not returned: " + str(last)[:80])
        return None
    if kind == "b":
        got = [tk.split("=ok:", 1)[1] for op, tk in po if op[0] in ("recv", "recvp") and tk and "=ok:" in tk]
        got = [g.split(";")[-1][:4] for g in got]
        want = [(b"%02d" % i).hex() for i in range(20)]
        if got != want:
            return "messages returned around abandoned recv calls (20 x 60000 bytes): %s, expected each once in order" % got
        return None
    if kind == "w":
        feed = W.untok([op for op, tk in po if op[0] == "feed"][0][2])
        env = feed[: len(feed) - len(W.msg([b"ask"]))]
        snd = [tk for op, tk in po if op[0] == "send"][0]
        wire = [tk for op, tk in po if op[0] == "wire"][-1]
        want = "wire:a=" + (env + W.msg([b"ans"])).hex()
        if snd != "s=ok" or wire != want:
            return "REP: a recv abandoned while a reply was owed changed the protocol state: %s %s (expected s=ok %s)" % (snd, wire[:80], want[:80])
        return None
    if kind in "xyz":
        ms = msgs_for(t)
        got = [tk for op, tk in po if op[0] in ("recv", "recvp", "recvw") and tk and ("=ok:" in tk)]
        if t == "REP":
            want = ["first;78", "7365636f6e64"]
        elif t == "REQ":
            want = [W.tok(b"reply-1")]
        elif t == "ROUTER":
            want = ["@a;" + ";".join(W.tok(f) for f in m) for m in ms]
        else:
            want = [";".join(W.tok(f) for f in m) for m in ms]
        want = [w.replace("first", W.tok(b"first")) for w in want]
        gotm = [g.split("=ok:", 1)[1] for g in got]
        if gotm != want:
            return "messages returned around abandoned recv calls: %s, expected %s" % (gotm, want)
        if t == "REQ":
            sends = [(op, tk) for op, tk in po if op[0] == "send"]
            # the request sent after the abandoned recv must be refused while the reply is outstanding
            idx_abandon = next(i for i, (op, tk) in enumerate(po) if op[0] == "recvp")
            completed_before = po[idx_abandon][1] is not None and "=ok:" in po[idx_abandon][1]
            if kind == "x":
                second = sends[1][1]
                if completed_before:
                    if second != "s=ok":
                        return "REQ refused a request although its recv had completed: " + second
                elif not second.startswith("s=err:ReturnToSender:7265712d32"):
                    return "REQ accepted a second request after an abandoned recv: " + second
        if t == "REP" and kind == "x":
            snd = [tk for op, tk in po if op[0] == "send"][0]
            idx_abandon = next(i for i, (op, tk) in enumerate(po) if op[0] == "recvp")
            completed_before = "=ok:" in (po[idx_abandon][1] or "")
            if not completed_before and not snd.startswith("s=err:ReturnToSender"):
                return "REP accepted a reply after an abandoned recv that returned no request: " + snd
    else:
        # random scenarios: per-connection order / exactly once (as in C05), abandoned polls included
        from . import c05
        obs2 = obs.replace("rp=", "r=")
        line2 = line.replace("recvp 0", "settle").replace("recvp 1", "recv").replace("recvp 2", "recv").replace("recvp 3", "recv")
        # (recvp 0 produces 'rp=pending' without polling; keep alignment by mapping it to a no-observation op)
        toks = obs2.split()
        t2, po2 = S.pair_ops_obs(line, obs)
        return c05.sock_judge(line.replace("recvp", "recv"), " ".join(tk for tk in toks))
    return None


def compare_filter(line):
    return not line.startswith(("b", "k", "c"))      # (large payloads: the extracted model is quadratic in the stream length)


def model_cases(case_lines):
    import re
    return [re.sub(r"recvw (\S+) (\S+)", r"feed \1 \2 / recv", l) for l in case_lines]


def nontrivial(line):
    return "recvp 0" not in line


def classify(line, what):
    return "c14-" + line.split()[2].lower()


norm_model = norm_impl
