"""Helpers shared by the socket-level properties: observation parsing and reference encodings."""
from . import wire as W
from . import scen


def toks(obs):
    return obs.split() if obs else []


def ops_of(line):
    """-> (socket type, [op token lists])"""
    parts = line.split(" / ")
    head = parts[0].split()
    return head[2], [p.split() for p in parts[1:]]


def pair_ops_obs(line, obs):
    """pairs each op that produces an observation with its token; returns list of (op, tok)"""
    t, ops = ops_of(line)
    ot = toks(obs)
    out = []
    i = 0
    for op in ops:
        if op[0] in ("feed", "feedq", "wake", "eof", "rerr", "wmode", "wplan", "settle", "yield", "drop") or (op[0] == "attach" and "bg" in op):
            out.append((op, None))
            continue
        if i < len(ot):
            out.append((op, ot[i]))
            i += 1
        else:
            out.append((op, None))
    return t, out


def frames_of_tok(t):
    if t == "<none>":
        return []
    return [W.untok(f) for f in t.split(";")]


def enc(frames):
    return W.msg(frames).hex() or "-"


def canon_impl(obs, line):
    return scen.canon(obs, line.split()[2])


def bad_obs(obs):
    return obs is None or obs.startswith(("panic", "abort", "hang")) or "PANICS" in obs or "=panic" in obs or "taskpanic" in obs
