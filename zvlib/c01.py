"""C01 - framing conforms to ZMTP 3.0 and round-trips."""
import random
from . import common as C

PID = "C01"
GRID_SMALL = [0, 1, 2, 254, 255, 256, 257]
GRID = [0, 1, 2, 254, 255, 256, 257, 65535, 65536, 65537]
TYPES = ["PUB", "SUB", "XPUB", "REQ", "REP", "DEALER", "ROUTER", "PUSH", "PULL", "PAIR", "XSUB", "STREAM"]


def frame_tok(n, seed):
    if n == 0:
        return "-"
    if n <= 8:
        return "".join("%02x" % ((seed * 17 + i * 29) & 255) for i in range(n))
    # mostly a run, with distinct head/tail so that shifts are visible
    return "%02x%02x+r%d.%02x+%02x" % (seed & 255, (seed * 3 + 1) & 255, n - 3, (seed * 7 + 2) & 255, (seed * 11 + 5) & 255)


def rnd_frame(rng, maxlen):
    n = rng.choice([0, 1, rng.randint(0, 16), rng.randint(0, maxlen), 255, 256])
    return "".join("%02x" % rng.randrange(256) for _ in range(n)) or "-"


def cases(tier, rng):
    out = []
    k = 0
    import itertools
    for nf in (1, 2, 3):
        for lens in itertools.product(GRID_SMALL, repeat=nf):
            out.append("e%d enc %s" % (k, ";".join(frame_tok(l, k + i) for i, l in enumerate(lens))))
            k += 1
    # "decoding those bytes with the library yields the identical message": the real decoder on the real encoder's bytes
    for nf in (1, 2, 3):
        for lens in itertools.product(GRID_SMALL, repeat=nf):
            out.append("d%d encdec %s" % (k, ",".join(str(l) for l in lens)))
            k += 1
    for lens in ([70000], [0, 70000, 0], [131072, 0], [1 << 20, 1, 0]):
        out.append("d%d encdec %s" % (k, ",".join(str(l) for l in lens)))
        k += 1
    # frame COUNTS far beyond anything usual (the property puts no bound on N)
    for nfr in (300, 1000, 4097, 10001, 25000, 70000):
        out.append("d%d encdec %s" % (k, ",".join(str((i * 7) % 3) for i in range(nfr))))
        k += 1
    nfs = (1, 2, 3) if tier == "quick" else (1, 2, 3, 4)
    for nf in nfs:
        for lens in itertools.product(GRID, repeat=nf):
            if nf == 4 and rng.random() > 0.3:
                continue
            out.append("h%d enchdr %s" % (k, ",".join(str(l) for l in lens)))
            k += 1
    nrand = 400 if tier == "quick" else 6000
    for _ in range(nrand):
        nf = rng.randint(1, 6)
        out.append("r%d enc %s" % (k, ";".join(rnd_frame(rng, 700) for _ in range(nf))))
        if k % 4 == 0:
            # the same into a write buffer that still holds an unflushed tail
            out.append("r%dp enc %s pre=%d" % (k, ";".join(rnd_frame(rng, 700) for _ in range(nf)), rng.choice([1, 2, 9, 300, 70000])))
        k += 1
    big = [70000, 131071, 131072, 1 << 20] if tier == "quick" else [70000, 131071, 131072, 1 << 20, (1 << 23) + 1, 3 << 20]
    for _ in range(100 if tier == "quick" else 800):
        nf = rng.randint(1, 4)
        lens = [rng.choice([rng.randint(0, 300), rng.randint(0, 70000), rng.choice(big), rng.choice(GRID)]) for _ in range(nf)]
        if sum(lens) > (12 << 20):
            continue
        out.append("b%d enchdr %s" % (k, ",".join(str(l) for l in lens)))
        k += 1
    # the bytes real sockets put on an attached connection (and their handshake: greeting + READY)
    for t, pt in (("PUSH", "PULL"), ("DEALER", "ROUTER"), ("REQ", "REP"), ("PUB", "SUB"), ("ROUTER", "DEALER")):
        for lens in [(0,), (255,), (256,), (1, 0, 257), (65536, 2)] + [tuple(rng.choice(GRID_SMALL) for _ in range(rng.randint(1, 4))) for _ in range(6)]:
            m = ";".join(frame_tok(l, k + i) for i, l in enumerate(lens))
            pre = "attach a %s" % pt
            if t == "PUB":
                pre += " / feed a 000101 / settle"
            snd = "send @a;%s" % m if t == "ROUTER" else "send %s" % m
            out.append("w%d sock %s / %s / hs a / %s / wire a" % (k, t, pre, snd))
            k += 1
    # REQ with two servers of which one has gone (its id still in the rotation): every request on the wire is still exactly
    # one empty delimiter and the message's frames
    for lens in [(5, 300), (0,), (255, 0, 256)]:
        m = ";".join(frame_tok(l, k + i) for i, l in enumerate(lens))
        rep = "010000026f6b"
        ops = ["attach a REP", "attach b REP", "send " + m, "wire a", "wire b", "eof a", "recv", "send " + m, "wire a", "wire b",
               "feed b " + rep, "recv", "send " + m, "wire a", "wire b", "feed b " + rep, "recv", "send " + m, "wire a", "wire b"]
        out.append("m%d sock REQ / %s" % (k, " / ".join(ops)))
        k += 1
    # a socket configured with an identity announces it in its READY, whatever its type
    for t, pt in (("PUSH", "PULL"), ("PULL", "PUSH"), ("DEALER", "ROUTER"), ("ROUTER", "DEALER"), ("REQ", "REP"), ("REP", "REQ"),
                  ("PUB", "SUB"), ("SUB", "PUB"), ("XPUB", "SUB")):
        for idl in (1, 16, 255):
            ident = bytes([0x41 + (idl + i) % 20 for i in range(idl)])
            out.append("i%d sock %s id=%s / attach a %s / hs a" % (k, t, ident.hex(), pt))
            k += 1
    out.append("g%d greet default" % k)
    k += 1
    for a in (0, 1, 2, 3, 4, 255):
        for b in (0, 1, 255):
            for m in (0, 1, 2):
                for s in (0, 1):
                    out.append("g%d greet %d %d %d %d" % (k, a, b, m, s))
                    k += 1
    for t in TYPES:
        out.append("y%d ready %s" % (k, t))
        k += 1
        for idl in (1, 16, 255):
            out.append("y%d ready %s r%d.%02x" % (k, t, idl, 0x41 + idl % 20))
            k += 1
        # identities that carry the READY body across the short/long size boundary (body = 39..44 + identity, by type)
        for idl in (range(200, 236) if tier == "quick" else range(150, 256)):
            out.append("y%d ready %s r%d.%02x" % (k, t, idl, 0x41 + idl % 20))
            k += 1
    # what the library itself puts on a REAL connection first: greeting + READY, on the bind side and on the connect side,
    # tcp and ipc (the scripted connections above are attached through the connect-side code path only)
    for t in ("PUB", "SUB", "XPUB", "REQ", "REP", "DEALER", "ROUTER", "PUSH", "PULL"):
        for how in ("bind tcp4 / conn 0", "bind ipc / conn 0", "connout"):
            out.append("g%d rt %s / %s / hs 0" % (k, t, how))
            k += 1
    return out


def expand(tok):
    out = bytearray()
    for part in tok.split("+"):
        if part in ("-", ""):
            continue
        if part[0] == "r":
            n, b = part[1:].split(".")
            out += bytes([int(b, 16)]) * int(n)
        else:
            out += bytes.fromhex(part)
    return bytes(out)


def py_hdr(more, n):
    if n <= 255:
        return bytes([1 if more else 0, n])
    return bytes([3 if more else 2]) + n.to_bytes(8, "big")


def compare_filter(line):
    # encdec: implementation-only round trip; i: socket-level identity option (the model's sockets have no options)
    return line.split()[1] not in ("encdec", "rt") and not line.startswith(("i", "m"))


def model_cases(case_lines):
    # the model has no `hs` observation: drop that op on the model side
    return [l.replace(" / hs a", "") for l in case_lines]


def norm_impl(o, line=None):
    return " ".join(t for t in o.split() if not t.startswith("hs:"))


def oracle_cases(case_lines, impl):
    """Second model pass: the extracted RFC parser over the implementation's bytes."""
    oc = []
    for line in case_lines:
        cid, kind = line.split()[:2]
        obs = impl.get(cid, "")
        if kind == "enc" and obs.startswith("ok "):
            oc.append("o%s rfcmsg %s" % (cid, obs[3:]))
            oc.append("f%s rfcframes %s" % (cid, obs[3:]))
        elif kind == "greet" and obs and obs != "panic":
            oc.append("o%s rfcgreet %s" % (cid, obs))
        elif kind == "ready" and obs and obs != "panic":
            oc.append("o%s rfccmd %s" % (cid, obs))
        elif kind == "sock":
            for tk in obs.split():
                if tk.startswith("hs:a=") and len(tk) > 5 + 128:
                    oc.append("o%s rfcgreet %s" % (cid, tk[5:5 + 128]))
                    oc.append("c%s rfccmd %s" % (cid, tk[5 + 128:]))
                if tk.startswith("wire:a=") and tk != "wire:a=-":
                    oc.append("m%s rfcmsg %s" % (cid, tk[7:]))
    return oc


def judge(line, impl_obs, orc):
    """Property oracle on the implementation's observation. Returns None or a description."""
    sp = line.split()
    cid, kind = sp[0], sp[1]
    if impl_obs is None:
        return "no observation"
    if impl_obs.startswith(("panic", "abort", "hang")):
        return "implementation " + impl_obs
    if kind == "rt":
        tk = [x for x in impl_obs.split() if x.startswith("h#0=")]
        if not tk or tk[0] == "h#0=-":
            return "no handshake with a real %s socket: %s" % (sp[2], impl_obs[:100])
        b = bytes.fromhex(tk[0][4:])
        want = bytes([0xff]) + bytes(8) + bytes([0x7f, 3, 0]) + b"NULL" + bytes(16) + bytes([0]) + bytes(31)
        if b[:64] != want:
            d = [i_ for i_ in range(min(64, len(b))) if b[i_] != want[i_]]
            return "greeting sent by a %s socket (%s) differs from the RFC 23 NULL greeting at octet(s) %s" % (sp[2], " ".join(sp[3:6]), d[:6])
        rdy = b[64:]
        body = bytes([5]) + b"READY" + bytes([11]) + b"Socket-Type" + len(sp[2]).to_bytes(4, "big") + sp[2].encode()
        if rdy != bytes([4, len(body)]) + body:
            return "READY sent by a %s socket (%s) is not the RFC 23 READY with Socket-Type only: %s" % (sp[2], " ".join(sp[3:6]), rdy.hex()[:80])
        return None
    if kind == "encdec":
        if impl_obs != "lib=ok":
            return "the library does not decode the bytes it encoded back to the identical message: " + str(impl_obs)
        return None
    if kind == "enc":
        frames = [expand(t) for t in sp[2].split(";")]
        want = "ok " + ";".join(f.hex() or "-" for f in frames) + " rest=0"
        got = orc.get("o" + cid)
        if got != want:
            return "independent RFC parser reads %r, application sent %r" % ((got or "")[:120], want[:120])
        fr = orc.get("f" + cid, "")
        if not fr.startswith("ok "):
            return "frame sequence rejected by RFC frame parser"
        fl = fr.split()[1:]
        for i, x in enumerate(fl):
            flags, n = x.split(":")
            cmd, lng, more, minimal = flags
            if cmd != "0" or minimal != "1" or (more == "1") != (i < len(fl) - 1) or int(n) != len(frames[i]):
                return "frame %d flags/size wrong: %s" % (i, x)
    elif kind == "enchdr":
        lens = [int(x) for x in sp[2].split(",")]
        toks = impl_obs.split()
        if len(toks) != len(lens) + 1 or toks[-1] != "rest=0":
            return "extra or missing bytes: %s" % impl_obs[:100]
        for i, (l, t) in enumerate(zip(lens, toks)):
            if t != py_hdr(i < len(lens) - 1, l).hex() + ":1":
                return "frame %d (len %d) header/body wrong: %s" % (i, l, t)
    elif kind == "sock" and cid.startswith("m"):
        frames = [expand(x) for x in [t2 for t2 in line.split(" / ") if t2.startswith("send ")][0][5:].split(";")]
        want = b""
        for i, f in enumerate([b""] + frames):
            want += py_hdr(i < len(frames), len(f)) + f
        toks = impl_obs.split()
        nonempty = [t for t in toks if t.startswith("wire:") and not t.endswith("=-")]
        sends = [t for t in toks if t.startswith("s=")]
        if sends.count("s=ok") != len(nonempty):
            return "REQ with a vanished server: %d sends succeeded, %d wires carry bytes" % (sends.count("s=ok"), len(nonempty))
        for t in nonempty:
            if t.split("=", 1)[1] != want.hex():
                return "REQ request on the wire is not one empty delimiter + the message's frames: %s" % t[:120]
    elif kind == "sock" and cid.startswith("i"):
        t = sp[2]
        ident = sp[3][3:]
        if orc.get("o" + cid) != "ok 3.0 NULL":
            return "greeting sent by a %s socket is not the well-formed 3.0/NULL greeting: %s" % (t, orc.get("o" + cid))
        c = orc.get("c" + cid, "")
        props = sorted(c.split(" ", 2)[2].split(",")) if c.startswith("ok READY ") else None
        want = sorted(["%s=%s" % (b"Socket-Type".hex(), t.encode().hex()), "%s=%s" % (b"Identity".hex(), ident)])
        if props != want:
            return "READY sent by a %s socket configured with an identity: %s (expected Socket-Type and Identity)" % (t, c[:140])
    elif kind == "sock":
        t = sp[2]
        if orc.get("o" + cid) != "ok 3.0 NULL":
            return "greeting sent by a %s socket is not the well-formed 3.0/NULL greeting: %s" % (t, orc.get("o" + cid))
        c = orc.get("c" + cid, "")
        if c != "ok READY %s=%s" % (b"Socket-Type".hex(), t.encode().hex()):
            return "READY sent by a %s socket: %s" % (t, c[:100])
        sent = [t2 for t2 in line.split(" / ") if t2.startswith("send ")][0][5:].split(";")
        if t == "ROUTER":
            sent = sent[1:]
        frames = [expand(x) for x in sent]
        if t == "REQ":
            frames = [b""] + frames
        want = "ok " + ";".join(f.hex() or "-" for f in frames) + " rest=0"
        if orc.get("m" + cid) != want:
            return "bytes written by the %s socket do not parse back to the message sent: %s" % (t, (orc.get("m" + cid) or "")[:100])
    elif kind == "greet":
        got = orc.get("o" + cid, "")
        if not got.startswith("ok "):
            return "greeting not RFC well-formed"
        if sp[2] == "default":
            if got != "ok 3.0 NULL":
                return "default greeting announces %s" % got
        else:
            want = "ok %s.%s %s" % (sp[2], sp[3], ["NULL", "PLAIN", "CURVE"][int(sp[4])])
            if got != want:
                return "greeting fields %s, expected %s" % (got, want)
    elif kind == "ready":
        got = orc.get("o" + cid, "")
        if not got.startswith("ok READY "):
            return "READY not an RFC-conformant command: %s" % got[:80]
        props = dict(p.split("=") for p in got.split(" ", 2)[2].split(","))
        st = bytes.fromhex(props.get(b"Socket-Type".hex(), "")).decode("latin1")
        if st != sp[2]:
            return "READY carries Socket-Type %r" % st
        if len(sp) > 3:
            if props.get(b"Identity".hex()) != (expand(sp[3]).hex() or "-"):
                return "READY Identity wrong or missing"
        elif b"Identity".hex() in props:
            return "READY carries an Identity although none is configured"
    return None


def nontrivial(line):
    sp = line.split()
    if sp[1] in ("enc", "enchdr"):
        return True
    return True


def classify(line, what):
    return "c01-" + line.split()[1]
