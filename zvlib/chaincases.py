"""REQ - ROUTER/DEALER proxy - REP chain on the real runtime (C15 second sentence, C08): case generator and oracle.

case: ID chain NC NW tcp|ipc [cap] / req C F;F / recv C / ...
The oracle needs no model: every worker answers with frame 07 followed by the request's frames, so the reply a
client must get is a function of ITS OWN outstanding request alone."""
from . import wire as W


def payload(rng, tag):
    shapes = [[tag], [tag, b""], [b"", tag], [tag, b"x" * 255, b""], [b"", tag, b"y" * 256], [tag + b"z" * 300], [tag, b"", b"", tag]]
    return rng.choice(shapes)


def cases(tier, rng, k0=0):
    out = []
    n = 24 if tier == "quick" else 300
    for i in range(n):
        nc, nw = rng.randint(1, 4), rng.randint(1, 3)
        tr = "ipc" if rng.random() < 0.25 else "tcp"
        cap = rng.random() < 0.3
        owing = [False] * nc
        seq = [0] * nc
        ops = []
        for _ in range(rng.randint(4, 16)):
            c = rng.randrange(nc)
            if not owing[c] and rng.random() < 0.08:
                # the client goes away between two exchanges and comes back under the same identity
                ops.append("reconn %d" % c)
                continue
            if owing[c]:
                if rng.random() < 0.85:
                    ops.append("recv %d" % c)
                    owing[c] = False
                else:
                    ops.append("req %d %s" % (c, ";".join(W.tok(f) for f in payload(rng, b"dup%d" % c))))
            else:
                if rng.random() < 0.92:
                    p = payload(rng, ("c%d-%d" % (c, seq[c])).encode())
                    seq[c] += 1
                    ops.append("req %d %s" % (c, ";".join(W.tok(f) for f in p)))
                    owing[c] = True
                else:
                    ops.append("recv %d" % c)
        # collect what is still owed, in a shuffled order (replies wait in the chain meanwhile)
        rest = [c for c in range(nc) if owing[c]]
        rng.shuffle(rest)
        ops += ["recv %d" % c for c in rest]
        out.append("q%d chain %d %d %s%s / %s" % (k0 + i, nc, nw, tr, " cap" if cap else "", " / ".join(ops)))
    # fixed: every client does an exchange, goes away, comes back under its identity and does two more
    for j, tr in enumerate(("tcp", "ipc")):
        ops = []
        for c in range(2):
            ops += ["req %d %s" % (c, W.tok(b"a%d" % c)), "recv %d" % c]
        for c in range(2):
            ops += ["reconn %d" % c, "req %d %s" % (c, W.tok(b"b%d" % c)), "recv %d" % c, "req %d %s;-" % (c, W.tok(b"c%d" % c)), "recv %d" % c]
        out.append("q%d chain 2 2 %s / %s" % (k0 + n + j, tr, " / ".join(ops)))
    return out


def plain(mtok):
    return ";".join((W.untok(f).hex() or "-") for f in mtok.split(";"))


def judge(line, obs):
    if obs is None or obs.startswith(("panic", "abort", "hang", "setup=")) or "PANICS" in obs:
        return "implementation " + str(obs)[:80]
    parts = [p.split() for p in line.split(" / ")]
    head, ops = parts[0], parts[1:]
    nc = int(head[2])
    toks = obs.split()
    want_extra = (1 if "cap" in head else 0) + 1
    if len(toks) != len(ops) + want_extra:
        return "observation/ops mismatch: " + obs[:120]
    owing = [None] * nc
    for op, tk in zip(ops, toks):
        c = int(op[1])
        if op[0] == "reconn":
            if tk != "c=ok":
                return "client %d could not come back under its identity: %s" % (c, tk)
            continue
        if op[0] == "req":
            if owing[c] is None:
                if tk != "q=ok":
                    return "client %d: request refused or failed although none was outstanding: %s" % (c, tk)
                owing[c] = op[2]
            elif not tk.startswith("q=err:ReturnToSender:" + plain(op[2])):
                return "client %d: a second request was not handed back while one is outstanding: %s" % (c, tk)
        else:
            if owing[c] is None:
                if not tk.startswith("r=err"):
                    return "client %d: recv without an outstanding request returned %s" % (c, tk)
            else:
                want = "r=ok:07;" + plain(owing[c])
                if tk != want:
                    return "client %d did not get the reply to its own request: got %s, expected %s" % (c, tk[:120], want[:120])
                owing[c] = None
    tail = toks[len(ops):]
    if "cap" in head and tail[0] != "cap=all":
        return "capture socket did not get a copy of every forwarded message"
    if tail[-1] != "proxy=running":
        return "proxy() ended during a well-formed exchange"
    return None
