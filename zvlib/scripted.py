"""Scripted-connection families ("k" cases) compared with Model/DirSend.v: ROUTER send to a named peer (C09), REQ lock-step
round robin (C08), SUB subscribe/unsubscribe broadcast (C13).  Each real socket runs over connections whose writers answer
every write from a script (partial writes, transient back-pressure, write errors, Ok(0), standing back-pressure with the
caller giving up); the extracted model runs the same history; an oracle independent of the model judges the real run."""
from . import wire as W
from . import sockcheck as S

FAULT_MODES = ["all", "all", "limit=1", "limit=3", "limit=100", "broken=BrokenPipe", "broken=ConnectionReset", "zero"]
PLAN_TOKS = ["p", "w1", "w3", "w300", "p,p", "z", "e:BrokenPipe", "e:ConnectionReset"]


def ans_of_mode(m):
    return "a" if m == "all" else "p" if m == "stall" else "z" if m == "zero" else "w" + m[6:] if m.startswith("limit=") else "e:" + m.split("=")[1]


def payload(rng, i):
    shapes = [[b"m%d" % i], [b"", b"m%d" % i], [b"m%d" % i, b"x" * 255, b"y" * 256], [b"m%d" % i, b""]]
    return rng.choice(shapes)


def script_ops(rng, names, stall=True, kinds=None):
    c = rng.choice(names)
    if rng.random() < 0.6:
        modes = list(FAULT_MODES) + (["stall", "stall"] if stall else [])
        if kinds is not None:
            modes = [m for m in modes if not m.startswith("broken=") and m != "zero"] + kinds
        return "wmode %s %s" % (c, rng.choice(modes))
    toks = list(PLAN_TOKS)
    if kinds is not None:
        toks = ["p", "w1", "w3", "w300", "p,p"] + [("z" if k == "zero" else "e:" + k.split("=")[1]) for k in kinds]
    return "wplan %s %s" % (c, ",".join(rng.choice(toks) for _ in range(rng.randint(1, 4))))


# ---------------------------------------------------------------- ROUTER (C09)
def router_cases(tier, rng, k):
    out = []
    for _ in range(150 if tier == "quick" else 2500):
        n = rng.randint(1, 4)
        names = "abcd"[:n]
        ids = {c: rng.choice([bytes([0x41 + i]), bytes([0x61 + i]) * 16, bytes([0x30 + i]) * 255]) for i, c in enumerate(names)}
        ops = ["attach %s DEALER id=%s" % (c, W.tok(ids[c])) for c in names]
        i = 0
        for _ in range(rng.randint(4, 16)):
            r = rng.random()
            if r < 0.55:
                to = rng.choice(names) if rng.random() < 0.9 else None
                dest = ids[to] if to else b"nobody"
                ops.append("send %s;%s" % (W.tok(dest), ";".join(W.tok(f) for f in payload(rng, i))))
                ops += ["wire " + x for x in names]
                i += 1
            else:
                ops.append(script_ops(rng, names))
        out.append("k%d sock ROUTER / %s" % (k, " / ".join(ops)))
        k += 1
    return out


def router_model(line):
    parts = [p.split() for p in line.split(" / ")]
    ids, ops = {}, []
    for op in parts[1:]:
        if op[0] == "attach":
            ids[W.untok([x for x in op if x.startswith("id=")][0][3:])] = op[1]
            ops.append("attach " + op[1])
        elif op[0] == "wmode":
            ops.append("mode %s %s" % (op[1], ans_of_mode(op[2])))
        elif op[0] == "wplan":
            ops.append("plan %s %s" % (op[1], op[2]))
        elif op[0] == "send":
            fr = op[1].split(";")
            ops.append("sendto %s %s" % (ids.get(W.untok(fr[0]), "z"), ";".join(fr[1:])))
        else:
            ops.append(" ".join(op))
    return "%s dirsend ROUTER / %s" % (parts[0][0], " / ".join(ops))


def router_judge(line, obs):
    t, po = S.pair_ops_obs(line, obs)
    ids, live, owed = {}, set(), {}
    i = 0
    while i < len(po):
        op, tk = po[i]
        if op[0] == "attach":
            ids[W.untok([x for x in op if x.startswith("id=")][0][3:])] = op[1]
            live.add(op[1])
            owed[op[1]] = b""
        if op[0] != "send":
            i += 1
            continue
        wires, j = {}, i + 1
        while j < len(po) and po[j][0][0] == "wire":
            hx = po[j][1].split("=", 1)[1]
            wires[po[j][0][1]] = bytes.fromhex(hx) if hx != "-" else b""
            j += 1
        i = j
        fr = S.frames_of_tok(op[1])
        to = ids.get(fr[0])
        enc = W.msg(fr[1:])
        if to is None or to not in live:
            if not tk.startswith("s=err") or any(wires.values()):
                return "message for an identity that is not (or no longer) a connected peer: %s, bytes written: %s" % (tk[:40], [c for c, v in wires.items() if v])
            continue
        if any(v for c, v in wires.items() if c != to):
            return "message for %s: bytes were written to %s" % (to, [c for c, v in wires.items() if v and c != to])
        due, got = owed[to] + enc, wires.get(to, b"")
        if tk == "s=ok":
            if got != due:
                return "send returned success but the wire of %s does not hold the complete message" % to
            owed[to] = b""
        elif tk == "s=pending":
            if not due.startswith(got):
                return "bytes on %s's wire are not a prefix of what is owed to it" % to
            owed[to] = due[len(got):]
        elif tk.startswith("s=err"):
            if not due.startswith(got):
                return "bytes on the failed connection %s are not a prefix of what was owed to it" % to
            live.discard(to)
        else:
            return "unexpected send result " + tk[:60]
    return None


# ---------------------------------------------------------------- REQ (C08)
def req_cases(tier, rng, k):
    out = []
    for _ in range(150 if tier == "quick" else 2500):
        n = rng.randint(1, 4)
        names = "abcd"[:n]
        ops = ["attach %s REP" % c for c in names]
        i = 0
        for _ in range(rng.randint(4, 14)):
            if rng.random() < 0.55:
                ops.append("send " + ";".join(W.tok(f) for f in payload(rng, i)))
                ops += ["wire " + x for x in names]
                ops += ["feed %s %s" % (x, W.tok(W.msg([b"", b"rep%d" % i]))) for x in names]
                ops.append("recv")
                i += 1
            else:
                ops.append(script_ops(rng, names))
        out.append("k%d sock REQ / %s" % (k, " / ".join(ops)))
        k += 1
    return out


def req_model(line):
    parts = [p.split() for p in line.split(" / ")]
    ops = []
    for op in parts[1:]:
        if op[0] == "attach":
            ops.append("attach " + op[1])
        elif op[0] == "wmode":
            ops.append("mode %s %s" % (op[1], ans_of_mode(op[2])))
        elif op[0] == "wplan":
            ops.append("plan %s %s" % (op[1], op[2]))
        elif op[0] == "recv":
            ops.append("settle")
        elif op[0] == "feed":
            pass
        else:
            ops.append(" ".join(op))
    return "%s dirsend REQ / %s" % (parts[0][0], " / ".join(ops))


def rotation_judge(line, obs, envelope):
    """every send attempt is the turn of the head of the rotation (attach order; each attempt moves the head to the tail, a
    failed write removes it); bytes appear on that connection only; success = everything owed to it is on its wire"""
    t, po = S.pair_ops_obs(line, obs)
    rr, owed = [], {}
    i = 0
    while i < len(po):
        op, tk = po[i]
        if op[0] == "attach":
            rr.append(op[1])
            owed[op[1]] = b""
        if op[0] == "recv" and tk is not None and tk.startswith("r=ok") and envelope and not tk.startswith("r=ok:726570"):
            return "REQ recv returned something that is not a reply: " + tk[:60]
        if op[0] != "send":
            i += 1
            continue
        wires, j = {}, i + 1
        while j < len(po) and po[j][0][0] == "wire":
            hx = po[j][1].split("=", 1)[1]
            wires[po[j][0][1]] = bytes.fromhex(hx) if hx != "-" else b""
            j += 1
        i = j
        enc = W.msg(envelope + S.frames_of_tok(op[1]))
        if not rr:
            if not tk.startswith("s=err:ReturnToSender") or any(wires.values()):
                return "send without a connected peer: %s" % tk[:60]
            continue
        head = rr[0]
        if any(v for c, v in wires.items() if c != head):
            return "it was %s's turn but bytes were written to %s (result %s)" % (head, [c for c, v in wires.items() if v and c != head], tk[:40])
        due, got = owed[head] + enc, wires.get(head, b"")
        if tk == "s=ok":
            if got != due:
                return "send returned success but the wire of %s does not hold the complete message (and what was owed before it)" % head
            owed[head] = b""
            rr = rr[1:] + [head]
        elif tk == "s=pending":
            if not due.startswith(got):
                return "bytes on %s's wire are not a prefix of what is owed to it" % head
            owed[head] = due[len(got):]
            rr = rr[1:] + [head]
        elif tk.startswith("s=err:ReturnToSender"):
            return "send was refused although %s is connected and it is its turn: %s" % (head, tk[:60])
        elif tk.startswith("s=err"):
            if not due.startswith(got):
                return "bytes on the failed connection %s are not a prefix of what was owed to it" % head
            rr = rr[1:]
        else:
            return "unexpected send result " + tk[:60]
    return None


# ---------------------------------------------------------------- SUB (C13)
def sub_cases(tier, rng, k):
    out = []
    topics = [b"", b"A", b"B", b"AB"]
    for _ in range(150 if tier == "quick" else 2500):
        n = rng.randint(1, 4)
        names = "abcd"[:n]
        kind = [rng.choice(["broken=BrokenPipe", "broken=ConnectionReset", "zero"])]
        ops = ["attach %s PUB" % c for c in names]
        for _ in range(rng.randint(4, 14)):
            if rng.random() < 0.55:
                ops.append("%s %s" % (rng.choice(["sub", "sub", "unsub"]), W.tok(rng.choice(topics))))
                ops += ["wire " + x for x in names]
            else:
                ops.append(script_ops(rng, names, stall=False, kinds=kind))
        out.append("k%d sock SUB / %s" % (k, " / ".join(ops)))
        k += 1
    return out


def sub_model(line):
    parts = [p.split() for p in line.split(" / ")]
    ops = []
    for op in parts[1:]:
        if op[0] == "attach":
            ops.append("attach " + op[1])
        elif op[0] == "wmode":
            ops.append("mode %s %s" % (op[1], ans_of_mode(op[2])))
        elif op[0] == "wplan":
            ops.append("plan %s %s" % (op[1], op[2]))
        else:
            ops.append(" ".join(op))
    return "%s dirsend SUB / %s" % (parts[0][0], " / ".join(ops))


def sub_judge(line, obs):
    t, po = S.pair_ops_obs(line, obs)
    cur, upd, got, touched = [], b"", {}, set()
    for op, tk in po:
        if op[0] == "attach":
            got[op[1]] = b""
        elif op[0] in ("wmode", "wplan"):
            # only a script that can FAIL a write (error, Ok(0)) excuses a peer from being up to date when the call returns:
            # partial writes and transient back-pressure are waited out by subscribe/unsubscribe
            spec = op[2]
            if "broken" in spec or "zero" in spec or "e:" in spec or "z" in spec.split(","):
                touched.add(op[1])
        elif op[0] in ("sub", "unsub"):
            tp = W.untok(op[1])
            if op[0] == "sub" and tp not in cur:
                cur.append(tp)
                upd += W.msg([b"\x01" + tp])
            elif op[0] == "unsub" and tp in cur:
                cur.remove(tp)
                upd += W.msg([b"\x00" + tp])
            elif tk != op[0] + "=ok":
                return "a call that does not change the set reported %s" % tk
            if tk == op[0] + "=pending":
                return "the call did not return although no connection keeps refusing data: " + tk
        elif op[0] == "wire":
            hx = tk.split("=", 1)[1]
            got[op[1]] += bytes.fromhex(hx) if hx != "-" else b""
            if not upd.startswith(got[op[1]]):
                return "peer %s was sent something that is not a prefix of the updates of the socket's set" % op[1]
            if op[1] not in touched and got[op[1]] != upd:
                return "peer %s, whose connection never fails a write (it may be slow), has not been told every change of the set when the call returned" % op[1]
    return None


def norm(o):
    keep = []
    for t in o.split():
        if t.startswith("att:") or t.startswith("r="):
            continue
        keep.append("s=err:ReturnToSender" if t.startswith("s=err:ReturnToSender") else "s=err:Other" if t.startswith("s=err:Other") else t)
    return " ".join(keep)
