"""C11 - PUB/XPUB deliver a message to a subscriber iff a subscription is a prefix."""
import itertools
from . import common as C
from . import wire as W
from . import sockcheck as S
from .c09 import scen_parse

PID = "C11"
EXHAUSTIVE = {"quick": True, "thorough": True}
TOPICS = [b"", b"a", b"ab", b"b", b"abc"]
FIRSTS = [b"", b"a", b"ab", b"abc", b"b", b"ba"]
SYMS = [("s", t) for t in TOPICS] + [("u", t) for t in TOPICS] + [("g", None), ("2", None)]
RULE = ("PUB and XPUB with scripted SUB peers: ALL per-subscriber histories of length <= 3 (quick) / 4 (thorough) over {subscribe t, unsubscribe t : "
        "t in '', a, ab, b, abc} + {garbage, two-frame message}, each followed by publishing the first frames '', a, ab, abc, b, ba (second frame 'payload') and the splits a|bc, ''|abc, ab|c, ''|b (matching is on the first frame only); 2-3 subscribers with "
        "independent seeded histories; compared at quiescence with a reference multiset-prefix oracle and with the extracted model; "
        "distinct = distinct (socket type, history); non-trivial = history with >= 2 events")


def sym_msg(sym):
    k, t = sym
    if k == "s":
        return [b"\x01" + t]
    if k == "u":
        return [b"\x00" + t]
    if k == "g":
        return [b"\x07zz"]
    return [b"\x01a", b"tail"]


def ref_active(history):
    """reference multiset: subscribe +1, unsubscribe -1 saturating at 0"""
    cnt = {}
    for k, t in history:
        if k == "s":
            cnt[t] = cnt.get(t, 0) + 1
        elif k == "u" and cnt.get(t, 0) > 0:
            cnt[t] -= 1
    return [t for t, c in cnt.items() if c > 0]


BIN_TOPICS = [b"\xff", b"\xfe", b"\xffA", b"\xef\xbf\xbd", b"\x80", b"A\xff", b"\x00", b"\xc3"]
BIN_FIRSTS = [b"\xff", b"\xfe1", b"\xffA1", b"\xef\xbf\xbd", b"\xef\xbf\xbdA", b"\x80", b"\x80\x80", b"A\xff", b"A", b"\x00", b"\xc3\xa9", b"\xc3"]
BIN_SYMS = [("s", t) for t in BIN_TOPICS] + [("u", t) for t in BIN_TOPICS]


def scenario(sock, hists, firsts=None):
    names = "abc"[:len(hists)]
    ops = ["attach %s SUB" % c for c in names]
    for c, h in zip(names, hists):
        if h:
            ops.append("feed %s %s" % (c, W.tok(b"".join(W.msg(sym_msg(s)) for s in h))))
    if sock == "PUB":
        ops.append("settle")
    else:
        ops += ["recv"] * (sum(len(h) for h in hists) + 1)
    for f in (firsts or FIRSTS):
        ops.append("send %s;7061796c6f6164" % W.tok(f))
    # only the FIRST frame is matched: later frames that would continue a topic must not count
    for f, rest in ((b"a", b"bc"), (b"", b"abc"), (b"ab", b"c"), (b"", b"b")):
        ops.append("send %s;%s" % (W.tok(f), W.tok(rest)))
    ops += ["wire " + c for c in names]
    return "sock %s / %s" % (sock, " / ".join(ops))


def cases(tier, rng):
    out = []
    k = 0
    maxlen = 3 if tier == "quick" else 4
    for sock in ("PUB", "XPUB"):
        for n in range(0, maxlen + 1):
            for h in itertools.product(range(len(SYMS)), repeat=n):
                out.append("h%d.%s %s" % (k, "".join("%x" % i for i in h) or "-", scenario(sock, [[SYMS[i] for i in h]])))
                k += 1
        for _ in range(300 if tier == "quick" else 5000):
            ns = rng.randint(2, 3)
            hists = [[rng.choice(SYMS) for _ in range(rng.randint(0, 30 if rng.random() < 0.2 else 6))] for _ in range(ns)]
            out.append("m%d %s" % (k, scenario(sock, hists)))
            k += 1
    # topics are octet strings, not text: octets >= 0x80, invalid and valid UTF-8, the octets of U+FFFD, a zero octet
    for sock in ("PUB", "XPUB"):
        for _ in range(120 if tier == "quick" else 2000):
            ns = rng.randint(1, 3)
            hists = [[rng.choice(BIN_SYMS) for _ in range(rng.randint(1, 6))] for _ in range(ns)]
            out.append("m%d %s" % (k, scenario(sock, hists, BIN_FIRSTS)))
            k += 1
    # long histories on one connection: more than a thousand subscriptions active at once (duplicates and distinct), then more
    for sock in ("PUB", "XPUB"):
        for dup in (True, False):
            hist = [("s", b"x" if dup else b"x%04d" % i_) for i_ in range(1100)] + [("s", b"T")] + [("u", b"x" if dup else b"x0000")] + [("s", b"Z")]
            ops = ["attach a SUB", "feed a " + W.tok(b"".join(W.msg(sym_msg(h_)) for h_ in hist))]
            ops += ["settle"] if sock == "PUB" else ["recv"] * (len(hist) + 1)
            for f in (b"T1", b"Z1", b"x1", b"q"):
                ops.append("send %s;7061796c6f6164" % W.tok(f))
            ops.append("wire a")
            out.append("m%d sock %s / %s" % (k, sock, " / ".join(ops)))
            k += 1
    # XPUB applies a subscription message when the application receives it, exactly once - whatever publishes happen between
    # its arrival and that recv
    for first in ("s", "u"):
        for nsend in (1, 2):
            ops = ["attach a SUB", "feed a " + W.tok(W.msg([b"\x01z"])), "recv"]
            if first == "u":
                ops += ["feed a " + W.tok(W.msg([b"\x01a"])), "recv", "feed a " + W.tok(W.msg([b"\x01a"])), "recv"]
            ops += ["feed a " + W.tok(W.msg([(b"\x01" if first == "s" else b"\x00") + b"a"]))]
            ops += ["send 6131;70"] * nsend            # published before the application has seen that message
            ops += ["recv"]
            ops += ["feed a " + W.tok(W.msg([(b"\x00" if first == "s" else b"\x01") + b"a"])), "recv"]
            ops += ["send 6132;70", "send 7a31;70", "wire a"]
            out.append("x%d sock XPUB / %s" % (k, " / ".join(ops)))
            k += 1
    # two connections announcing the same identity: subscriptions are counted per CONNECTION; the one connected last is
    # the subscriber and starts without any
    for sock in ("PUB", "XPUB"):
        for idl in (1, 16):
            ident = W.tok(b"S" * idl)
            for keep_a in (True, False):
                ops = ["attach a SUB id=" + ident, "feed a " + W.tok(W.msg([b"\x01a"]))]
                ops += ["settle"] if sock == "PUB" else ["recv", "recv"]
                if not keep_a:
                    ops += ["eof a"] + (["settle"] if sock == "PUB" else ["recv"])
                ops += ["attach b SUB id=" + ident, "feed b " + W.tok(W.msg([b"\x01b"]))]
                ops += ["settle"] if sock == "PUB" else ["recv", "recv"]
                for f in (b"a1", b"b1", b"ab", b"c"):
                    ops.append("send %s;7061796c6f6164" % W.tok(f))
                ops += ["wire b"]
                out.append("i%d sock %s / %s" % (k, sock, " / ".join(ops)))
                k += 1
    # delivery iff a subscription is a prefix ALSO while other subscribers' connections stall, accept part of a write or
    # break (the fan-out family of C12, judged here for who gets what): a subscriber whose connection accepts everything
    # gets exactly the messages that matched one of its subscriptions at that time
    from . import c12
    fam = c12.fan_cases("quick", rng, k)
    out += fam
    k += len(fam) + 1
    # several subscribers to everything, some of whose connections are broken (which the publisher notices on its own
    # write once the write mark is reached and then forgets them): the others miss nothing, before, at and after that moment
    for sock in ("PUB", "XPUB"):
        for rep in range(8 if tier == "quick" else 60):
            names = "abcde"[: rng.randint(3, 5)]
            dead = rng.sample(names, rng.randint(1, len(names) - 1))
            ops = ["attach %s SUB" % c for c in names]
            for c in names:
                ops += ["feed %s 000101" % c] + (["settle"] if sock == "PUB" else ["recv"])
            ops += ["wmode %s broken=BrokenPipe" % c for c in dead]
            for i in range(3):
                ops.append("send %02x+r70000.%02x" % (0x41 + i, 0x61 + i))
            for i in range(4):
                ops.append("send %02x%02x" % (0x4d, 0x30 + i))
            for c in names:
                ops += ["wire " + c, "dropped " + c]
            out.append("f%d sock %s / %s" % (k, sock, " / ".join(ops)))
            k += 1
    return out


def compare_filter(line):
    return not line.split()[0].startswith("i")      # the model assumes distinct identities


def model_cases(case_lines):
    from . import c12
    return c12.model_cases(case_lines)


def norm_impl(o, line):
    if line.startswith("f"):
        from . import c12
        return c12.norm_impl(o, line)
    return S.canon_impl(o, line)


def norm_model(o, line):
    return o if line.startswith("f") else S.canon_impl(o, line)


def judge(line, obs, orc):
    if S.bad_obs(obs):
        return "implementation " + str(obs)[:80]
    if line.startswith("f"):
        from . import c12
        return c12.fan_judge(line, obs)
    t, po = S.pair_ops_obs(line, obs)
    if line.split()[0].startswith("i"):
        got = [tk for op, tk in po if op[0] == "wire" and op[1] == "b"][0].split("=", 1)[1]
        want = W.msg([b"b1", b"payload"]).hex()
        if got != want:
            return "a connection that subscribed to 'b' only (its identity was used by an earlier connection subscribed to 'a') received %s, expected %s" % (got[:80], want)
        return None
    if line.split()[0].startswith("x"):
        # reference: the multiset changes at each recv that returns a subscription message; a publish is matched against
        # the multiset at the moment of the send
        cnt, pending, want = {}, [], b""
        for op, tk in po:
            if op[0] == "feed":
                pending += scen_parse(W.untok(op[2]))
            elif op[0] == "recv" and tk.startswith("r=ok:") and pending:
                m = pending.pop(0)
                t0 = m[0][1:]
                if m[0][:1] == b"\x01":
                    cnt[t0] = cnt.get(t0, 0) + 1
                elif cnt.get(t0, 0) > 0:
                    cnt[t0] -= 1
            elif op[0] == "send":
                fr = S.frames_of_tok(op[1])
                if any(c > 0 and fr[0].startswith(t0) for t0, c in cnt.items()):
                    want += W.msg(fr)
        got = [tk for op, tk in po if op[0] == "wire"][0].split("=", 1)[1]
        if got != (want.hex() or "-"):
            return "XPUB with publishes between the arrival and the recv of subscription messages: subscriber received %s, expected %s" % (got[:100], (want.hex() or "-")[:100])
        return None
    fed = {}
    names = []
    for op, tk in po:
        if op[0] == "attach":
            names.append(op[1])
            fed[op[1]] = []
        elif op[0] == "feed":
            fed[op[1]] = scen_parse(W.untok(op[2]))
    sends = [S.frames_of_tok(op[1]) for op, tk in po if op[0] == "send"]
    for op, tk in po:
        if op[0] == "send" and tk != "s=ok":
            return "publish did not succeed: " + str(tk)
    # reference: per subscriber, classify its messages and keep the multiset
    for c in names:
        hist = []
        for m in fed[c]:
            if len(m) == 1 and m[0][:1] == b"\x01":
                hist.append(("s", m[0][1:]))
            elif len(m) == 1 and m[0][:1] == b"\x00":
                hist.append(("u", m[0][1:]))
        act = ref_active(hist)
        want = b"".join(W.msg(m) for m in sends if any(m[0].startswith(a) for a in act))
        got = [tk for op, tk in po if op[0] == "wire" and op[1] == c][0].split("=", 1)[1]
        if got != (want.hex() or "-"):
            return "subscriber %s with active subscriptions %s received %s, expected %s" % (c, [a.hex() for a in act], got[:120], (want.hex() or "-")[:120])
    if t == "XPUB":
        # every subscription message is handed to the application verbatim, per-peer order preserved
        got = [S.frames_of_tok(tk[5:]) for op, tk in po if op[0] == "recv" and tk.startswith("r=ok:")]
        allfed = [m for c in names for m in fed[c]]
        if sorted(map(repr, got)) != sorted(map(repr, allfed)):
            return "XPUB did not hand every subscription message to the application verbatim, exactly once"
        for c in names:
            it = iter(got)
            if not all(any(m == g for g in it) for m in fed[c]):
                return "XPUB reordered the subscription messages of subscriber %s" % c
    return None


def nontrivial(line):
    return line.count("feed") >= 1


def classify(line, what):
    return "c11-" + line.split()[2].lower()


