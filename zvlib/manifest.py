"""Generates MANIFEST.json from the table below (kept in one place so that it is always valid)."""
import json
import os
import subprocess

ROOT = os.path.dirname(os.path.dirname(os.path.abspath(__file__)))

CHECKS = {
    "C01": dict(
        technique="Coq proof (round-trip through an independent RFC 23 parser, by induction over frames) + regenerated constants + differential correspondence of the real encoders against the extracted model",
        text="Theorems in coq/Properties/C01.v (closed under the global context) state that the modelled encoders emit, for every message, greeting and READY, bytes that an independent RFC-23 parser reads back exactly; the constants of the model are regenerated from /repo on every run and the real encode paths are compared with the extracted model on a boundary grid crossed exhaustively for 1-3 frames plus random and multi-MiB shapes. Proof settles all lengths and counts at once; the tie to the code is differential.",
        note="Trusted: Coq kernel; translator gen/extract.py; extraction (ExtrOcamlBasic only); ml/driver.ml; Rust harness. bytes-crate put_u8/put_u64/extend semantics are modelled and only validated by the correspondence run.",
        design="4 C01"),
}

CHECKS["C02"] = dict(
    technique="Coq proof (resumability of the decoder, induction over chunks; equality with a declarative stream grammar) + differential correspondence of the real FramedRead/ZmqCodec under enumerated segmentations",
    text="Theorems in coq/Properties/C02.v: the modelled decoder behind the modelled FramedRead loop yields, for every chunking of every byte stream, the items of the whole stream (C02_chunks_eq_whole, C02_segmentation_independent), and these are the declarative reading of the stream (C02_chunks_eq_spec). All partitions and all streams at once - what enumeration cannot reach. The real codec is run under every single cut, pairs of cuts, byte-at-a-time, 8 KiB reads and random partitions and compared with the extracted model; real sockets are fed handshake + data in one segment.",
    note="Trusted: kernel, translator, extraction, driver, harness. FramedRead2's loop (third-party, version pinned by Cargo.lock) is modelled by hand; BytesMut growth is abstracted to list append.",
    design="4 C02")
CHECKS["C03"] = dict(
    technique="Coq proof (no modelled panic site reachable, termination measure, held bytes <= received bytes) + structure re-read from source + exhaustive/mutation streams on the real code with measured recursion depth and allocation (debug and release)",
    text="Theorems in coq/Properties/C03.v: for all byte streams and chunkings the model reaches no panic site (index, slice, get_u*, split_to, unwrap), every decode call terminates, the handshake decision is total, and bytes held never exceed bytes received. The real code is fed an exhaustive small-alphabet sweep, structure-aware mutations (oversized lengths, 2^31..2^64-1 sizes, 1e3-1e5 MORE frames in one read) at all handshake stages and socket types; panics, aborts, hangs, decode nesting depth and allocator peaks are observations with stated bounds.",
    note="Real stack depth and heap are runtime quantities: measured by the harness (depth hook, counting allocator, child-process crash detection), not proved. usize taken as 64 bit.",
    design="4 C03")
CHECKS["C04"] = dict(
    technique="Coq proof (finite 12x12 sweep lifted by forallb_forall; iff-characterisation of the admission decision; registration multiplicity lemma) + regenerated matrix/name tables + exhaustive attach grid on the real handshake",
    text="Theorems in coq/Properties/C04.v: compatible = RFC relation on all 144 pairs, symmetric, total; greeting/version/mechanism/READY/identity rules as iff statements; admit_iff over the decoded stream; an admitted identity is in each table exactly once and nobody else is disturbed; a non-admitted connection changes nothing. The matrix, stride, discriminants and name tables are regenerated from src/lib.rs every run. The real peer_connected is run over the 113400-cell grid (thorough; quick: covering sample) with a probe showing registration/inertness.",
    note="UUIDv4 freshness of auto identities is assumed (Section-free: the fresh key is a parameter of register). Monitor-channel delivery of AcceptFailed is exercised under C20.",
    design="4 C04")

SOCK_NOTE = "Trusted: kernel, translator, extraction, driver, harness. The World model (coq/Model/World.v) is hand-written from src/{backend,req,rep,dealer,router,push,pull,pub,sub,xpub,fair_queue}.rs and tied to the code by running identical scenarios (seeded generator + targeted grids) on the real sockets over scripted in-memory connections and on the extracted model, comparing every API result and every byte written per connection; scc::HashMap, SegQueue, Mutex, FramedWrite are modelled (map / FIFO / atomic sections / append). Distinct peer identities are assumed by the model."
CHECKS["C07"] = dict(
    technique="Coq proof (algebraic laws of the envelope functions over all frame lists) + differential correspondence of real REQ/REP sockets against the extracted model + property oracle on wire bytes",
    text="Theorems in coq/Properties/C07.v: REQ adds exactly one empty delimiter and strips exactly that; REP splits at the FIRST empty frame for every routing prefix and payload (empty frames inside the payload included), its reply retraces the envelope, a request with nothing after the delimiter is refused, never zero frames; end-to-end law through identity-adding hops. The real sockets are driven over the payload x prefix grid and compared with the model and with an oracle that recomputes the expected wire bytes from the property text. Over the wire (composed with the codec and the fair queue): REQ's request bytes, in any chunking and behind any routing identities, are served by REP with exactly the payload and a reply that retraces the envelope; the reply's bytes in any chunking are returned by REQ as exactly the payload, after which the next request goes out.",
    note=SOCK_NOTE, design="4 C07")
CHECKS["C08"] = dict(
    technique="Coq proof (decision rules and alternation lemmas on the World step function) + exhaustive {send,recv} sequences to length 6 on real REQ and REP against a two-state reference machine and the extracted model",
    text="Theorems in coq/Properties/C08.v: out-of-turn send/recv on REQ and reply-without-request on REP fail, hand the message back and leave the state and every wire unchanged; successful REQ sends and completed recvs alternate; the reply is read from the requestee's connection only; REP writes envelope++reply to exactly the requester's connection. Exhaustive call sequences (peer answers / silent / closed; 1-2 clients) and seeded lock-step client interleavings run on the real sockets.",
    note=SOCK_NOTE, design="4 C08")
CHECKS["C09"] = dict(
    technique="Coq proof (labelling and exact-routing lemmas with frame conditions on all other connections) + seeded scenarios on a real ROUTER with per-connection ground truth, compared with the extracted model",
    text="Theorems in coq/Properties/C09.v: what the fair queue yields from connection k is returned prefixed with k's registered identity and otherwise unmodified; a send is written, minus its first frame, to exactly the addressed registered peer with every other wire and the peer table unchanged; unknown, empty or over-long identities fail and write nothing. Real ROUTER with 1-4 peers, announced/auto identities, segmented arrivals, departed peers. Over whole histories (any number of peers, any interleaving of arrivals in any chunking, closes, recv calls): every returned message carries the label of an attached connection, the messages labelled k are a prefix of k's stream in order, and complete whenever a recv parks.",
    note=SOCK_NOTE, design="4 C09")
CHECKS["C10"] = dict(
    technique="Coq proof (rotation lemma by induction over sends, frame conditions; history invariants of the send loop over connections that answer every write from a script, including write errors and abandoned sends; structure flags re-read from src/backend.rs) + exhaustive join-time grids, seeded back-pressure scenarios and scripted-connection histories on real PUSH/DEALER/REQ with wire snapshots at send return, compared with the extracted models and judged by an independent rotation oracle",
    text="Theorems in coq/Properties/C10.v: a successful round-robin send writes the whole message to the head of the rotation only and moves it to the tail; with a duplicate-free rotation of live peers n consecutive sends reach the n members in order (strict rotation) and restore the queue; a late joiner enters at the tail; no live peer => ReturnToSender with the message and nothing written. Real sockets: every join order/time for <=3 peers x 6 sends, writers accepting k bytes per call or answering Pending first. Known finding rr-duplicate-id-after-rejoin is reported as such. Closed form: with n peers message number i goes whole to peer i mod n in joining order. Model/RrSend.v is send_round_robin over one framed writer per peer answering each write from its own script (partial writes, transient and standing back-pressure with the caller giving up, errors, Ok(0)): a send touches at most one connection; success means the whole message is on that wire; a failed write forgets the peer and at most a prefix went out; an abandoned send keeps the peer and its turn (C10_faulty_stall_keeps_turn with C10_gen_structure re-reading the guard sites of the repaired code, /repo 69ecfb3); for every history the wire of a connection is a prefix of exactly the messages given to it, complete when none failed or stalled. 300 (thorough 5000) such histories run on real PUSH/DEALER sockets and on the extracted model.",
    note=SOCK_NOTE, design="4 C10")

FQ_NOTE = "Trusted: kernel, translator, extraction, driver, harness. Granularity: a parking_lot::Mutex critical section is one atomic step; poll_next's two critical sections and the stream poll between them are separate steps, any environment step may be scheduled in between (coq/Model/FairQueue.v). The model is replayed label by label on the real FairQueue through scripted streams whose poll_next executes the in-window events, so no threads are needed. BinaryHeap/HashMap are modelled as sorted list / key set; AtomicUsize wrap-around ignored; the executor re-polling a woken task is tokio's."
CHECKS["C05"] = dict(
    technique="Coq proof (invariant over all label interleavings of the fair-queue transition system; composition with the C02 stream theorems) + exhaustive/random label schedules replayed on the real FairQueue and random scenarios on the six receiving socket types",
    text="Theorems in coq/Properties/C05.v: for every interleaving of the receiver's critical sections with wakes, inserts, removes and arrivals - no assumption on the environment - delivered ++ in-flight ++ remaining = arrived per stream (exactly once, in order), no registered stream is lost, and per connection the items are the declarative reading of its byte stream for every chunking. All depth-5/6 schedules for 2 streams incl. events inside the poll window and seeded deep schedules run on the real queue; the six receiving sockets are run on segmented multi-peer scenarios against the model and a per-connection order oracle. Whole-socket model (decoder + connections + fair queue + disconnect on error, six socket types): for every interleaving of arrivals in any chunking, closes and recv calls the items handed out for a connection are a prefix of the declarative reading of its stream, and complete whenever a recv parks; end to end, what PUSH/DEALER writes for any message list is read back by PULL/DEALER/ROUTER as exactly those messages for any chunking.",
    note=FQ_NOTE, design="4 C05")
CHECKS["C06"] = dict(
    technique="Coq proof (claim invariant and parked invariant over all interleavings; one-claim and potential argument for the rotation bound under the waker contract) + schedules with a counting waker and an executor that re-polls only when woken, on the real FairQueue",
    text="Theorems in coq/Properties/C06.v: every stream in the map holds a claim (ready event or kept waker); a parked, un-woken receiver sits on an empty heap with its waker stored; hence a ready registered stream still owes its wake and that wake (or an insert) wakes the receiver - no lost wake-up, for all interleavings; poll_next terminates; under the contract that a kept waker fires once, each stream holds at most one claim and a waiting stream sees at most (#claiming streams - 1) foreign deliveries. Real queue: all depth-5/6 schedules + seeded ones ended by a drain where any item left on a registered stream is a lost wake-up; saturated rotation schedules.",
    note=FQ_NOTE + " The fairness bound assumes the registration contract (tokio's I/O driver: a registration is consumed by its wake); safety and no-lost-wake-up assume nothing.", design="4 C06")
CHECKS["C11"] = dict(
    technique="Coq proof (refinement of the subscription list to a reference prefix multiset; iff-characterisation of matching; exactly-once publish lemma) + exhaustive short histories on real PUB/XPUB against a reference oracle and the extracted model",
    text="Theorems in coq/Properties/C11.v: for every per-subscriber history the kept list has the reference multiset's multiplicities (subscribe +1, unsubscribe -1 saturating), a message is matched iff some active subscription is a byte-prefix of its first frame, malformed messages change nothing, one publish writes to a matching subscriber exactly once and to nobody else. All histories of length <=3/4 over 12 symbols x 6 first frames on real PUB and XPUB, plus 2-3 subscriber random histories; XPUB recv verbatim/in order. Over the wire: the subscription messages a SUB socket writes for any subscribe/unsubscribe history, in any chunking, make PUB (and XPUB, whose recv also hands them over in order) deliver a message iff a CURRENT subscription is a prefix of its first frame.",
    note=SOCK_NOTE + " PUB applies subscriptions in a spawned task: compared at quiescence only.", design="4 C11")
CHECKS["C12"] = dict(
    technique="Coq proof (invariants of try_send over every transport answer sequence: stream well-formedness, buffer bound, accepting case; refinement-style theorems about the PUB/XPUB send loop over one such sink per subscriber: isolation of each subscriber from the others, order-preserving subsequence, bound, removal after a broken pipe, agreement with the socket model over accepting connections) + the real try_send replaying the same answer scripts + real PUB/XPUB with scripted subscriber connections compared with the extracted fan-out model and judged by an independent oracle",
    text="Theorems in coq/Properties/C12.v: for every answer sequence of the transport, written++buffered is extended by exactly the encoded message when try_send accepts it and is unchanged otherwise (only whole messages are dropped; what reached the peer is a prefix of a well-formed stream of an order-preserving subsequence), the buffer stays below high-water mark + one message, an accepting connection misses nothing. Model/PubFan.v is the send loop of PUB/XPUB over one sink per subscriber with subscriptions and transport answers changing at any point: publish is a total function (no waiting outcome); in the run of the whole table each subscriber goes through exactly its own solo run, so delivery to it does not depend on the other subscribers or their connections; its stream is a concatenation of whole messages forming an order-preserving subsequence of those offered to it; the bound and the accepting case lift to the table; over accepting connections the fan-out equals the publish of the World socket model. The high-water mark is regenerated from the Cargo.lock-pinned asynchronous-codec. Real TrySend on scripted writers; real publishers: send always returns, healthy subscribers miss nothing; real PUB and XPUB with 2-3 scripted subscriber connections agree with the extracted PubFan model tap for tap (length and hash of every wire tap, release of the write half).",
    note="Trusted: kernel, translator, extraction, driver, harness. FramedWrite2 (third-party, pinned) is modelled by hand from its source; BytesMut capacity vs length is not modelled (measured separately under C03's allocator bounds).", design="4 C12")
CHECKS["C14"] = dict(
    technique="Coq proof (fair queue holds nothing across calls; items accounted for over all schedules; REQ pending-recv lemma) + exhaustive (cut position x polls-before-drop) cancellation grid on all seven receiving socket types",
    text="Theorems in coq/Properties/C14.v: poll_next is synchronous so nothing is checked out whenever the receiver is parked; items are accounted for at every point of every schedule, hence across abandoned polls; a REQ recv that is still pending leaves the socket owing it, and a send is refused meanwhile; the structure (no take() of the marker before the await) is re-read from src/req.rs. Real sockets: a recv future is created, polled 0-3 times and dropped at every byte position of the incoming messages, repeated after every byte; the drained sequence and the following send/recv are judged.",
    note=SOCK_NOTE + " Suspension points are those of the model: an await that never returns Pending in the harness (uncontended scc lookup) is covered by the theorems only.", design="4 C14")

CHECKS["C13"] = dict(
    technique="Coq proof (invariant over all histories of subscribe/unsubscribe/join: every peer's wire, counted as a publisher counts it, equals the socket's set) + exhaustive short histories with a join at every position and fault scenarios on a real SUB socket",
    text="Theorems in coq/Properties/C13.v: for every history of subscribe / unsubscribe (repeated, never-subscribed) and joins, each registered peer has been written messages whose per-topic reference count is 1 for subscribed topics and 0 otherwise, so all peers agree with the set; updates reach every connected peer, repeats are silent, a late joiner gets the whole set; the structure of src/sub.rs (send only on change, no stop at first error, no unwrap) is re-read every run. Real SUB: all histories to length 4/5 over 3 topics x every join position, 2-3 peers, a failing peer during updates, a failing replay; the accept-vs-subscribe race is a listed known finding.",
    note=SOCK_NOTE + " The accept-side interleaving (join suspended between reading the set and registering) is outside the sequential model: exercised on the real code by stalling the joiner's writer, reported as KNOWN-FINDING sub-accept-race.", design="4 C13")
CHECKS["C15"] = dict(
    technique="Coq proof (loop invariant of the proxy for every sequence of select! branch choices, over the World models of both sockets) + the real proxy() between real sockets on scripted connections compared with the extracted model and a verbatim-forwarding oracle",
    text="Theorems in coq/Properties/C15.v: for every choice sequence, everything received on one side has been sent on the other as the same list of messages (frames, order, multiplicity), at most the message whose send failed is missing when an error ends the proxy; the capture socket is sent a copy of every message taken. The losing select! branch consumes nothing (C14). Real proxy() over ROUTER/DEALER and DEALER/DEALER with 1-3 clients and workers, capture, both sides queued before the proxy runs, segmented feeds. Chain model (n REQ clients - ROUTER/DEALER proxy - m REP workers, every schedule): each client gets exactly the replies to its own requests, in order; nothing is lost; at quiescence every request was served once. The real chain (real sockets, TCP/IPC, optional capture) is run against it.",
    note=SOCK_NOTE + " futures::select! picks pseudo-randomly among ready branches: modelled as arbitrary choice; the capture wire is compared as a multiset, per-direction wires exactly.", design="4 C15")
CHECKS["C16"] = dict(
    technique="Coq proof (frame lemmas, disconnect lemmas on the World model, re-read structure of every failure path) + every cut position x fault kind x socket type on real sockets with other live peers",
    text="Theorems in coq/Properties/C16.v: events on one connection leave all others untouched; a stream error surfaced by recv disconnects exactly that peer and cannot be yielded again (only registered streams yield); a disconnected peer is in no table, both halves released, nobody else touched; no later round-robin or routed send reaches it. Real sockets: nine types x every byte offset of greeting+READY+messages x {EOF, reset, write error} x 0-2 other peers: others served, at most one error, halves released, nothing routed afterwards. Known finding clean-eof-keeps-write-half is listed and reported as such. Over whole histories of the socket model: at most one error per connection and nothing after it; after it the connection is not a peer, not a stream, both halves dropped; connections that did not fail and were not closed keep everything; every connection's traffic is delivered completely whatever happens to the others. The listed finding is exhibited as a model-level witness.",
    note=SOCK_NOTE + " Descriptor release is the OS's: the model says 'both halves dropped', the harness observes the drop of the scripted halves. PUB/XPUB see a write error only once the buffer reaches the high-water mark (try_send ignores the flush result).", design="4 C16")

RT_NOTE = "Trusted: kernel, translator, extraction, driver, harness. PARTIAL: the theorems are about the library's bookkeeping / ownership / task structure; what the OS answers to bind, that tokio runs every runnable task, that a cancelled oneshot is observed, that dropping the last owner closes a descriptor, and timing ('shortly afterwards' = 600 ms grace) are observed on the real runtime by harness/src/rt.rs (multi-thread tokio, real TCP v4/v6/localhost and IPC, raw clients), never proved."
CHECKS["C17"] = dict(
    technique="Coq proof on an ownership model of what a socket keeps alive (partial: runtime observed) + re-read structure of every shutdown path + the property's 270-cell grid on the real runtime",
    text="Theorems in coq/Properties/C17.v: after drop/close no endpoint is listened on, the peer table, fair queue, reader tasks and bind map are released, and a connection stays open only if an unfinished handshake task owns it; without clearing the queue a polled stream's connection survives (the repaired defect, kept as a theorem); every backend's shutdown() clears table and queue and all nine socket types shut down on Drop (re-read from the source). Real runtime: type x transport x history prefix x {close, drop}: old endpoint refuses, IPC path gone, every raw peer sees EOF, tasks terminate; the pending-handshake prefix is a listed known finding.",
    note=RT_NOTE, design="4 C17")
CHECKS["C18"] = dict(
    technique="Coq proof on a bind-table model against an OS oracle (partial: OS observed) + seeded bind/unbind/connect sequences on real sockets with the OS's answers replayed into the extracted model",
    text="Theorems in coq/Properties/C18.v: for every operation sequence the bind set equals the set of endpoints listened on; a successful bind adds exactly the resolved endpoint, a failed bind changes nothing, unbind removes that endpoint and only it, unbind of anything else is NoSuchBind and changes nothing. Real sockets over the real OS: wildcard ports resolve to non-zero ports whose text re-parses, duplicates fail, fresh connects to every endpoint ever bound are accepted iff it is still bound, messages keep flowing on earlier connections.",
    note=RT_NOTE, design="4 C18")
CHECKS["C19"] = dict(
    technique="Coq proof (iff with a declarative grammar, round-trip law, literal classification, slice safety; IPv6 text laws as explicit premises) + exhaustive small-alphabet sweep of the real parser against the extracted model and an independent reference",
    text="Theorems in coq/Properties/C19.v: parse s = Some e iff the declarative grammar accepts (s, e) - exactly lower-case tcp://host:port with non-empty host and decimal port 0..65535, and ipc://non-empty-path; parse(fmt(e)) = e for every parsed e (IPv6 bracketed); IPv4 and IPv6 literals (bare or bracketed) are addresses, never domains; the one byte slice is in range and on character boundaries. Real parser: every string of length <=3/4 over 15 characters after 5 prefixes, grammar-generated near-valid endpoints, random Unicode, against the model and a Python re + ipaddress reference.",
    note="Trusted: kernel, translator, extraction, driver, harness. The regex crate's semantics for the two patterns and std::net's IPv4/IPv6 text forms are third-party: modelled by meaning. std's IPv6 text form enters the theorems as two explicit premises (ip6_chars_law, ip6_print_law) and the driver as a hand-written OCaml instantiation; both are exercised by the differential run. UTF-8 byte indexing is abstracted to code points with a byte-length function.", design="4 C19")
CHECKS["C20"] = dict(
    technique="Coq proof on the task-structure model (partial: scheduler fairness assumed) + stalled/closed/garbage handshakes at every byte offset on real TCP and IPC listeners with well-behaved clients before, during and after",
    text="Theorems in coq/Properties/C20.v: accepting is enabled whenever the bind is not stopped, whatever state any handshake task is in, and touches neither peer tables nor monitor; a handshake task is touched only by its own connection's events and its outcome is a function of its own bytes (chunking-independent); only the final step of a handshake touches the socket; a refused handshake is reported as AcceptFailed and leaves the peer set unchanged. Real runtime: every bound socket type x {TCP, IPC} x {stop, close, garbage} x byte offsets, 1-8 misbehaving clients: well-behaved clients complete and exchange messages; monitor events match the handshake model's verdicts.",
    note=RT_NOTE + " A change that runs the handshake inline in the accept loop changes the structure the model assumes: it is caught on the real runtime (the well-behaved client never completes).", design="4 C20")

NOT_YET = {
}


def build():
    hooks = subprocess.run(["git", "-C", "/repo", "log", "--format=%H %s"], stdout=subprocess.PIPE, text=True).stdout
    hook_commits = [l.split()[0] for l in hooks.splitlines() if " verif hooks" in l]
    props = [json.loads(l)["id"] for l in open(os.path.join(ROOT, "properties.jsonl"))]
    checks = []
    na = []
    for pid in props:
        if pid in CHECKS:
            c = CHECKS[pid]
            checks.append({
                "property_id": pid,
                "quick_cmd": "./zv check %s --tier quick" % pid,
                "thorough_cmd": "./zv check %s --tier thorough" % pid,
                "evidence_file": "/verif/evidence/%s.json" % pid,
                "replay_cmd_template": "./zv replay {path}",
                "engine": "zv",
                "level_claimed": {"category": "proof", "text": c["text"], "design_ref": c["design"]},
                "level_note": c["note"],
                "technique": c["technique"],
            })
        else:
            na.append({"property_id": pid, "reason": NOT_YET.get(pid, "check not built yet in this round; the design (DESIGN.md section 4) claims it and work proceeds in the order of DESIGN.md section 8")})
    m = {
        "version": 1,
        "setup_cmd": "./zv setup",
        "hooks": {
            "guard": "verif-hooks",
            "enable": "cargo feature: the harness crate /verif/harness depends on zeromq by path with features = [\"verif-hooks\"]",
            "baseline_off_cmd": "cd /repo && cargo test --workspace --no-fail-fast --offline",
            "source_commits": hook_commits,
            "add_only": True,
        },
        "engines": [{"name": "zv", "path": "/verif/zv", "serves_properties": sorted(CHECKS),
                     "kind_free_text": "Coq 8.16 development (coq/), translator (gen/extract.py), extracted OCaml model driver (ml/), Rust harness on the real code (harness/), Python orchestration (zv, zvlib/)"}],
        "checks": checks,
        "not_applicable": na,
        "notes": "All checks: cwd /verif. Every check regenerates coq/Gen/Src.v from /repo's working tree, rebuilds the model driver and the harness, re-checks the property's theorem file, and runs the correspondence. Known findings: KNOWN_FINDINGS.txt.",
    }
    with open(os.path.join(ROOT, "MANIFEST.json"), "w") as f:
        json.dump(m, f, indent=1)


if __name__ == "__main__":
    build()
