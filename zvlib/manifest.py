"""Generates MANIFEST.json from the table below (kept in one place so that it is always valid)."""
import json
import os
import subprocess

ROOT = os.path.dirname(os.path.dirname(os.path.abspath(__file__)))

CHECKS = {
    "C01": dict(
        technique="Coq proof (round-trip through an independent RFC 23 parser, by induction over frames) + regenerated constants + differential correspondence of the real encoders against the extracted model",
        text="Theorems in coq/Properties/C01.v (closed under the global context) state that the modelled encoders emit, for every message, greeting and READY, bytes that an independent RFC-23 parser reads back exactly; the constants of the model are regenerated from /repo on every run and the real encode paths are compared with the extracted model on a boundary grid crossed exhaustively for 1-3 frames plus random and multi-MiB shapes. Proof settles all lengths and counts at once; the tie to the code is differential.",
        note="Trusted: Coq kernel; translator gen/extract.py; extraction (ExtrOcamlBasic only); ml/driver.ml; Rust harness. bytes-crate put_u8/put_u64/extend semantics are modelled and only validated by the correspondence run.",
        design="4 C01"),
}

CHECKS["C02"] = dict(
    technique="Coq proof (resumability of the decoder, induction over chunks; equality with a declarative stream grammar) + differential correspondence of the real FramedRead/ZmqCodec under enumerated segmentations",
    text="Theorems in coq/Properties/C02.v: the modelled decoder behind the modelled FramedRead loop yields, for every chunking of every byte stream, the items of the whole stream (C02_chunks_eq_whole, C02_segmentation_independent), and these are the declarative reading of the stream (C02_chunks_eq_spec). All partitions and all streams at once - what enumeration cannot reach. The real codec is run under every single cut, pairs of cuts, byte-at-a-time, 8 KiB reads and random partitions and compared with the extracted model; real sockets are fed handshake + data in one segment.",
    note="Trusted: kernel, translator, extraction, driver, harness. FramedRead2's loop (third-party, version pinned by Cargo.lock) is modelled by hand; BytesMut growth is abstracted to list append.",
    design="4 C02")
CHECKS["C03"] = dict(
    technique="Coq proof (no modelled panic site reachable, termination measure, held bytes <= received bytes) + structure re-read from source + exhaustive/mutation streams on the real code with measured recursion depth and allocation (debug and release)",
    text="Theorems in coq/Properties/C03.v: for all byte streams and chunkings the model reaches no panic site (index, slice, get_u*, split_to, unwrap), every decode call terminates, the handshake decision is total, and bytes held never exceed bytes received. The real code is fed an exhaustive small-alphabet sweep, structure-aware mutations (oversized lengths, 2^31..2^64-1 sizes, 1e3-1e5 MORE frames in one read) at all handshake stages and socket types; panics, aborts, hangs, decode nesting depth and allocator peaks are observations with stated bounds.",
    note="Real stack depth and heap are runtime quantities: measured by the harness (depth hook, counting allocator, child-process crash detection), not proved. usize taken as 64 bit.",
    design="4 C03")
CHECKS["C04"] = dict(
    technique="Coq proof (finite 12x12 sweep lifted by forallb_forall; iff-characterisation of the admission decision; registration multiplicity lemma) + regenerated matrix/name tables + exhaustive attach grid on the real handshake",
    text="Theorems in coq/Properties/C04.v: compatible = RFC relation on all 144 pairs, symmetric, total; greeting/version/mechanism/READY/identity rules as iff statements; admit_iff over the decoded stream; an admitted identity is in each table exactly once and nobody else is disturbed; a non-admitted connection changes nothing. The matrix, stride, discriminants and name tables are regenerated from src/lib.rs every run. The real peer_connected is run over the 113400-cell grid (thorough; quick: covering sample) with a probe showing registration/inertness.",
    note="UUIDv4 freshness of auto identities is assumed (Section-free: the fresh key is a parameter of register). Monitor-channel delivery of AcceptFailed is exercised under C20.",
    design="4 C04")

SOCK_NOTE = "Trusted: kernel, translator, extraction, driver, harness. The World model (coq/Model/World.v) is hand-written from src/{backend,req,rep,dealer,router,push,pull,pub,sub,xpub,fair_queue}.rs and tied to the code by running identical scenarios (seeded generator + targeted grids) on the real sockets over scripted in-memory connections and on the extracted model, comparing every API result and every byte written per connection; scc::HashMap, SegQueue, Mutex, FramedWrite are modelled (map / FIFO / atomic sections / append). Distinct peer identities are assumed by the model."
CHECKS["C07"] = dict(
    technique="Coq proof (algebraic laws of the envelope functions over all frame lists) + differential correspondence of real REQ/REP sockets against the extracted model + property oracle on wire bytes",
    text="Theorems in coq/Properties/C07.v: REQ adds exactly one empty delimiter and strips exactly that; REP splits at the FIRST empty frame for every routing prefix and payload (empty frames inside the payload included), its reply retraces the envelope, a request with nothing after the delimiter is refused, never zero frames; end-to-end law through identity-adding hops. The real sockets are driven over the payload x prefix grid and compared with the model and with an oracle that recomputes the expected wire bytes from the property text.",
    note=SOCK_NOTE, design="4 C07")
CHECKS["C08"] = dict(
    technique="Coq proof (decision rules and alternation lemmas on the World step function) + exhaustive {send,recv} sequences to length 6 on real REQ and REP against a two-state reference machine and the extracted model",
    text="Theorems in coq/Properties/C08.v: out-of-turn send/recv on REQ and reply-without-request on REP fail, hand the message back and leave the state and every wire unchanged; successful REQ sends and completed recvs alternate; the reply is read from the requestee's connection only; REP writes envelope++reply to exactly the requester's connection. Exhaustive call sequences (peer answers / silent / closed; 1-2 clients) and seeded lock-step client interleavings run on the real sockets.",
    note=SOCK_NOTE, design="4 C08")
CHECKS["C09"] = dict(
    technique="Coq proof (labelling and exact-routing lemmas with frame conditions on all other connections) + seeded scenarios on a real ROUTER with per-connection ground truth, compared with the extracted model",
    text="Theorems in coq/Properties/C09.v: what the fair queue yields from connection k is returned prefixed with k's registered identity and otherwise unmodified; a send is written, minus its first frame, to exactly the addressed registered peer with every other wire and the peer table unchanged; unknown, empty or over-long identities fail and write nothing. Real ROUTER with 1-4 peers, announced/auto identities, segmented arrivals, departed peers.",
    note=SOCK_NOTE, design="4 C09")
CHECKS["C10"] = dict(
    technique="Coq proof (rotation lemma by induction over sends, frame conditions) + exhaustive join-time grids and seeded back-pressure scenarios on real PUSH/DEALER/REQ with wire snapshots at send return",
    text="Theorems in coq/Properties/C10.v: a successful round-robin send writes the whole message to the head of the rotation only and moves it to the tail; with a duplicate-free rotation of live peers n consecutive sends reach the n members in order (strict rotation) and restore the queue; a late joiner enters at the tail; no live peer => ReturnToSender with the message and nothing written. Real sockets: every join order/time for <=3 peers x 6 sends, writers accepting k bytes per call or answering Pending first. Known finding rr-duplicate-id-after-rejoin is reported as such.",
    note=SOCK_NOTE, design="4 C10")

NOT_YET = {
}


def build():
    hooks = subprocess.run(["git", "-C", "/repo", "log", "--format=%H %s"], stdout=subprocess.PIPE, text=True).stdout
    hook_commits = [l.split()[0] for l in hooks.splitlines() if " verif hooks" in l]
    props = [json.loads(l)["id"] for l in open(os.path.join(ROOT, "properties.jsonl"))]
    checks = []
    na = []
    for pid in props:
        if pid in CHECKS:
            c = CHECKS[pid]
            checks.append({
                "property_id": pid,
                "quick_cmd": "./zv check %s --tier quick" % pid,
                "thorough_cmd": "./zv check %s --tier thorough" % pid,
                "evidence_file": "/verif/evidence/%s.json" % pid,
                "replay_cmd_template": "./zv replay {path}",
                "engine": "zv",
                "level_claimed": {"category": "proof", "text": c["text"], "design_ref": c["design"]},
                "level_note": c["note"],
                "technique": c["technique"],
            })
        else:
            na.append({"property_id": pid, "reason": NOT_YET.get(pid, "check not built yet in this round; the design (DESIGN.md section 4) claims it and work proceeds in the order of DESIGN.md section 8")})
    m = {
        "version": 1,
        "setup_cmd": "./zv setup",
        "hooks": {
            "guard": "verif-hooks",
            "enable": "cargo feature: the harness crate /verif/harness depends on zeromq by path with features = [\"verif-hooks\"]",
            "baseline_off_cmd": "cd /repo && cargo test --workspace --no-fail-fast --offline",
            "source_commits": hook_commits,
            "add_only": True,
        },
        "engines": [{"name": "zv", "path": "/verif/zv", "serves_properties": sorted(CHECKS),
                     "kind_free_text": "Coq 8.16 development (coq/), translator (gen/extract.py), extracted OCaml model driver (ml/), Rust harness on the real code (harness/), Python orchestration (zv, zvlib/)"}],
        "checks": checks,
        "not_applicable": na,
        "notes": "All checks: cwd /verif. Every check regenerates coq/Gen/Src.v from /repo's working tree, rebuilds the model driver and the harness, re-checks the property's theorem file, and runs the correspondence. Known findings: KNOWN_FINDINGS.txt.",
    }
    with open(os.path.join(ROOT, "MANIFEST.json"), "w") as f:
        json.dump(m, f, indent=1)


if __name__ == "__main__":
    build()
