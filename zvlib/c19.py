"""C19 - endpoint parsing is total, strict, and round-trips through its text form."""
import ipaddress
import itertools
import re
from . import common as C

PID = "C19"
EXHAUSTIVE = {"quick": True, "thorough": True}
ALPHA = ["t", "c", "p", "i", ":", "/", "[", "]", ".", "0", "1", "9", "a", "\n", "é"]
PREFIXES = ["tcp://", "ipc://", "tcp:/", "TCP://", ""]
RULE = ("str::parse::<Endpoint>() + Display on the real code vs the extracted model and an independent reference (Python re + ipaddress): "
        "EXHAUSTIVE over the alphabet {t,c,p,i,:,/,[,],.,0,1,9,a,newline,e-acute} for every string of length <= 3 (quick) / 4 (thorough) after each of "
        "the prefixes tcp://, ipc://, tcp:/, TCP://, ''; grammar-generated valid and near-valid endpoints (multi-colon hosts, bracket edge cases, "
        "leading-zero ports, 65535/65536, non-ASCII digits, IPv4-mapped IPv6, all IPv6 compression shapes); seeded random Unicode; "
        "distinct = distinct string; non-trivial = the string has a scheme separator")


def gen_ipv6(rng):
    # groups are written with or without leading zeros (the longest literals, 40..45 characters, are fully padded ones with a
    # dotted-quad tail)
    pad = rng.random() < 0.25
    groups = [("%04x" if pad else "%x") % rng.choice([0, 0, 0, 1, 0xffff, rng.randrange(65536)]) for _ in range(8)]
    r = rng.random()
    if r < 0.35:
        i = rng.randint(0, 7)
        j = rng.randint(i, 7)
        s = ":".join(groups[:i]) + "::" + ":".join(groups[j + 1:])
    elif r < 0.5:
        s = ":".join(groups[:6]) + ":%d.%d.%d.%d" % tuple((rng.choice([100, 192, 200, 255]) if pad else rng.randrange(256)) for _ in range(4))
    elif r < 0.6:
        s = "::ffff:%d.%d.%d.%d" % tuple(rng.randrange(256) for _ in range(4))
    else:
        s = ":".join(groups)
    if rng.random() < 0.2:
        s = s.upper()
    return s


def gen_host(rng):
    r = rng.random()
    if r < 0.2:
        return "%d.%d.%d.%d" % tuple(rng.choice([0, 1, 9, 10, 99, 100, 255, 256, 300]) for _ in range(4))
    if r < 0.3:
        return rng.choice(["01.2.3.4", "1.2.3", "1.2.3.4.5", "1..2.3", "1.2.3.04", "0.0.0.0", "255.255.255.255", "1.2.3.4 "])
    if r < 0.55:
        a = gen_ipv6(rng)
        return rng.choice([a, "[" + a + "]", "[" + a, a + "]", "[[" + a + "]]", "[" + a + "%eth0]"])
    if r < 0.65:
        return rng.choice(["[]", "[:]", "[::]", "[::1", "::", ":", "[", "]", "[a]", "[é]", "[::1]x", "a:b", "a:b:c", "::1:", "localhost", "example.com", "é.example", " "])
    return "".join(rng.choice("abc.-_:[]09é \t") for _ in range(rng.randint(1, 12)))


def gen_port(rng):
    return rng.choice(["0", "1", "80", "65535", "65536", "065535", "0000", "99999", "", "-1", "+1", "8o", "١٢", "８０", "1 ", " 1", str(rng.randrange(70000))])


def cases(tier, rng):
    seen = []
    maxlen = 3 if tier == "quick" else 4
    for pre in PREFIXES:
        for n in range(0, maxlen + 1):
            for tup in itertools.product(ALPHA, repeat=n):
                seen.append(pre + "".join(tup))
    for _ in range(4000 if tier == "quick" else 60000):
        r = rng.random()
        if r < 0.6:
            seen.append(rng.choice(["tcp://", "tcp://", "tcp://", "ipc://", "udp://", "tcp:/", "Tcp://", "tcp//", "tcpx://", "://", "t c p://"]) + gen_host(rng) + rng.choice([":", ":", ":", "", "::"]) + gen_port(rng))
        elif r < 0.75:
            seen.append("ipc://" + "".join(rng.choice("/tmp.x- é\n*") for _ in range(rng.randint(0, 10))))
        else:
            seen.append("".join(chr(rng.choice([rng.randrange(32, 127), rng.randrange(0x80, 0x800), rng.randrange(0x4e00, 0x4e40), 0x1f600, 10, 58, 47])) for _ in range(rng.randint(0, 14))))
    # every port shape behind every kind of well-formed host (decimal digits that are not ASCII are not digits here)
    PORTS = ["0", "1", "80", "65535", "65536", "065535", "0000", "00000000080", "99999", "4294967376", "", "-1", "+1", "8o", "1 ", " 1",
             "\u0661", "\u0661\u0662", "1\u0661", "\u06611", "\uff18\uff10", "\u0968\u0969", "1\u0662\u0033", "\u00b2", "\u2460", "1e3", "0x50"]
    for h in ("127.0.0.1", "[::1]", "::1", "[fe80::1]", "localhost", "example.com", "a", "*"):
        for pt in PORTS:
            seen.append("tcp://%s:%s" % (h, pt))
    # well-formed endpoints with IPv6 literals of every length a literal can have (2 .. 45 characters: the long ones are fully
    # zero-padded groups with a dotted-quad tail), bracketed and bare
    for _ in range(300 if tier == "quick" else 4000):
        groups = ["%04x" % rng.choice([0, 1, 0xffff, rng.randrange(65536)]) for _ in range(8)]
        shape = rng.random()
        if shape < 0.5:
            quad = ".".join(str(rng.choice([rng.randrange(10), rng.randrange(10, 100), rng.randrange(100, 256)])) for _ in range(4))
            lit = ":".join(groups[:6]) + ":" + quad
        elif shape < 0.75:
            lit = ":".join(groups)
        else:
            lit = ":".join(g.lstrip("0") or "0" for g in groups)
        if rng.random() < 0.2:
            lit = lit.upper()
        seen.append("tcp://%s:%d" % (lit if rng.random() < 0.5 else "[" + lit + "]", rng.choice([0, 1, 80, 5555, 65535])))
    out = []
    for i, s in enumerate(dict.fromkeys(seen)):
        out.append("e%d ep %s" % (i, s.encode("utf8").hex() or "-"))
    return out


def ref_parse(s):
    """independent reading of the property text; returns canonical string or None"""
    m = re.match(r"\A([a-z]+)://([^\n]+)\Z", s)
    if not m:
        return None
    scheme, addr = m.group(1), m.group(2)
    if scheme == "ipc":
        return "ipc:" + addr.encode("utf8").hex()
    if scheme != "tcp":
        return None
    i = addr.rfind(":")
    if i <= 0:
        return None
    host, port = addr[:i], addr[i + 1:]
    if not re.match(r"\A[0-9]+\Z", port) or int(port) > 65535:
        return None
    try:
        a = ipaddress.IPv4Address(host)
        return "tcp:ip4:%s:%d" % (a, int(port))
    except ValueError:
        pass
    inner = host
    if host.startswith("[") and host.endswith("]") and len(host.encode("utf8")) >= 4:
        inner = host[1:-1]
    try:
        if "%" in inner or not re.match(r"\A[0-9a-fA-F:.]+\Z", inner):
            raise ValueError
        a = ipaddress.IPv6Address(inner)
        return "tcp:ip6:%s:%d" % (".".join("%x" % int(g, 16) for g in a.exploded.split(":")), int(port))
    except ValueError:
        return "tcp:dom:%s:%d" % (host.encode("utf8").hex(), int(port))


def judge(line, obs, orc):
    if obs is None or obs.startswith(("panic", "abort", "hang")) or "PANICS" in obs:
        return "endpoint parsing crashed: " + str(obs)[:60]
    hx = line.split()[2]
    s = bytes.fromhex(hx if hx != "-" else "").decode("utf8")
    want = ref_parse(s)
    if obs == "err":
        if want is not None:
            return "%r is a well-formed endpoint (%s) but was rejected" % (s, want)
        return None
    toks = obs.split()
    got = toks[0][3:]
    if want is None:
        return "%r is not a well-formed endpoint but was accepted as %s" % (s, got)
    if got != want:
        return "%r parsed as %s, reference says %s" % (s, got, want)
    if toks[1] != "rt=ok":
        return "%r: formatting the endpoint and parsing the result gives %s" % (s, toks[1])
    text = bytes.fromhex(toks[2][4:]).decode("utf8")
    if want.startswith("tcp:ip6:") and not text.startswith("tcp://["):
        return "IPv6 host is not bracketed in the text form: %r" % text
    return None


def nontrivial(line):
    return "3a2f2f" in line


def classify(line, what):
    return "c19-" + ("crash" if "crashed" in what else "accept" if "accepted" in what else "reject" if "rejected" in what else "roundtrip" if "formatting" in what else "classify")
