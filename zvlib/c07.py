"""C07 - REQ/REP envelopes are added, preserved and stripped exactly."""
import itertools
from . import common as C
from . import wire as W
from . import sockcheck as S

PID = "C07"
RULE = ("REQ and REP sockets over scripted peers: payloads of 1-4 frames with sizes from {0,1,255,256,70000} x routing prefixes of 0-3 "
        "identity frames of 1/16/255 bytes x request shapes (from REQ, from DEALER, via ROUTER chains, delimiter-last, single-frame, no delimiter); "
        "observation = frames returned by recv and bytes on the wire; distinct = distinct case; non-trivial = payload has an empty frame, "
        "a >255-byte frame, or a routing prefix")
SIZES = [0, 1, 255, 256]


def fr(n, seed):
    return bytes(((seed * 7 + i * 13) & 0xff) or 1 for i in range(n))


def cases(tier, rng):
    out = []
    k = 0
    payloads = []
    for nf in (1, 2, 3):
        for szs in itertools.product(SIZES, repeat=nf):
            payloads.append([fr(s, i + 3 * nf) for i, s in enumerate(szs)])
    payloads.append([fr(70000, 5)])
    payloads.append([b"", fr(70000, 6), b""])
    payloads.append([b"a", b"", b"", b"b"])
    if tier == "quick":
        payloads = [p for i, p in enumerate(payloads) if i % 3 == 0 or len(p) <= 2]
    prefixes = [[], [fr(1, 9)], [fr(16, 10)], [fr(255, 11)], [fr(1, 12), fr(16, 13)], [fr(5, 14), fr(255, 15), fr(1, 16)]]
    for p in payloads:
        # REQ side: request on the wire, reply stripped
        t = ";".join(W.tok(f) for f in p)
        rep = [b""] + p
        out.append("q%d sock REQ / attach a REP / send %s / wire a / feed a %s / recv / recv" % (k, t, W.tok(W.msg(rep))))
        k += 1
        for pre in prefixes if tier == "thorough" or len(p) <= 2 else prefixes[:3]:
            req = pre + [b""] + p
            out.append("p%d sock REP / attach a %s / feed a %s / recv / send %s / wire a / send 00" %
                       (k, "REQ" if not pre else "DEALER", W.tok(W.msg(req)), t))
            k += 1
    # malformed requests / replies
    for pre in prefixes:
        out.append("m%d sock REP / attach a DEALER / feed a %s / recv / recv" % (k, W.tok(W.msg(pre + [b""]))))
        k += 1
    for bad in ([b"solo"], [b""], [b"a", b"b"], [b"a", b"b", b"c"]):
        out.append("m%d sock REP / attach a DEALER / feed a %s / recv / send 7a / wire a" % (k, W.tok(W.msg(bad))))
        k += 1
        out.append("m%d sock REQ / attach a REP / send 71 / wire a / feed a %s / recv / send 72 / wire a" % (k, W.tok(W.msg(bad))))
        k += 1
    # REQ with several servers of which one has gone (its id is still queued): still exactly one delimiter
    for p in payloads[:12]:
        t = ";".join(W.tok(f) for f in p)
        for first in ("a", "b"):
            other = "b" if first == "a" else "a"
            rep = W.tok(W.msg([b"", b"r"]))
            ops = ["attach a REP", "attach b REP", "attach c REP", "eof " + first]
            for i in range(7):
                ops += ["send " + t, "wire a", "wire b", "wire c"]
                ops += ["feed %s %s" % (x, rep) for x in "abc" if x != first]
                ops += ["recv"]
            out.append("s%d sock REQ / %s" % (k, " / ".join(ops)))
            k += 1
    # ... and with servers whose connection FAILS ON THE WRITE of a request (first, second or both of three): whatever
    # the call returns, every request that goes out anywhere is exactly one delimiter + payload
    for p in payloads[:8]:
        t = ";".join(W.tok(f) for f in p)
        for bad in ("a", "b", "ab"):
            for kind in ("BrokenPipe", "ConnectionReset"):
                rep = W.tok(W.msg([b"", b"r"]))
                ops = ["attach a REP", "attach b REP", "attach c REP"] + ["wmode %s broken=%s" % (x, kind) for x in bad]
                for i in range(6):
                    ops += ["send " + t, "wire a", "wire b", "wire c"]
                    ops += ["feed %s %s" % (x, rep) for x in "abc" if x not in bad]
                    ops += ["recv"]
                out.append("s%d sock REQ / %s" % (k, " / ".join(ops)))
                k += 1
    # REP serving requests with DIFFERENT envelopes one after the other, some never answered: every reply carries the
    # envelope of the request it answers (the last one returned), on that requester's connection, nothing elsewhere
    envs = {"a": [fr(5, 21)], "b": [], "c": [fr(1, 22), fr(16, 23)]}
    for order in itertools.permutations("abc"):
        for answered in itertools.product((True, False), repeat=3):
            if not answered[-1]:
                continue
            ops = ["attach a DEALER", "attach b REQ", "attach c DEALER"]
            for c, ans in zip(order, answered):
                ops += ["feed %s %s" % (c, W.tok(W.msg(envs[c] + [b"", b"q-" + c.encode()]))), "recv"]
                if ans:
                    ops += ["send 722d%02x" % ord(c), "wire a", "wire b", "wire c"]
            out.append("v%d sock REP / %s" % (k, " / ".join(ops)))
            k += 1
    # through a ROUTER hop: ROUTER prepends the identity, REP keeps it in the envelope, ROUTER strips it again
    for p in payloads[:20]:
        t = ";".join(W.tok(f) for f in p)
        out.append("h%d sock ROUTER / attach a REQ / feed a %s / recv / send @a;-;%s / wire a" % (k, W.tok(W.msg([b""] + p)), t))
        k += 1
    return out


def compare_filter(line):
    return "wmode" not in line      # the World model's connections accept every write


def norm_impl(o, line):
    return S.canon_impl(o, line)


def judge(line, obs, orc):
    if S.bad_obs(obs):
        return "implementation " + str(obs)[:80]
    if "ok:<none>" in obs:
        return "a message with zero frames was handed to the application: " + obs[:120]
    t, po = S.pair_ops_obs(line, obs)
    kind = line.split()[0][0]
    if kind == "q":
        sent = S.frames_of_tok(po[1][0][1])
        want_wire = "wire:a=" + S.enc([b""] + sent)
        if po[1][1] != "s=ok" or po[2][1] != want_wire:
            return "REQ did not put exactly one empty delimiter before the payload: %s (expected %s)" % (str(po[2][1])[:100], want_wire[:100])
        want = "r=ok:" + ";".join(W.tok(f) for f in sent)
        got = po[4][1]
        if S.frames_of_tok(got[5:]) != sent if got.startswith("r=ok:") else True:
            return "REQ did not return the reply with exactly the delimiter removed: %s" % got[:100]
        if po[5][1] != "r=err:Other":
            return "REQ accepted a second recv: " + str(po[5][1])
    elif kind == "p":
        feed = W.untok(po[1][0][2])
        payload = S.frames_of_tok(po[3][0][1])
        got = po[2][1]
        if not got.startswith("r=ok:") or S.frames_of_tok(got[5:]) != payload:
            return "REP did not hand over exactly the frames after the first delimiter: %s" % got[:100]
        # the envelope is everything before the payload in the request
        env = feed[: len(feed) - len(W.msg(payload))]
        # re-encode: envelope frames keep MORE set
        want = "wire:a=" + (env + W.msg(payload)).hex()
        if po[3][1] != "s=ok" or po[4][1] != want:
            return "REP reply does not retrace the request's envelope: %s (expected %s)" % (str(po[4][1])[:120], want[:120])
        if not str(po[5][1]).startswith("s=err:ReturnToSender"):
            return "REP accepted a second reply: " + str(po[5][1])
    elif kind == "s":
        # every request that is written anywhere is written as exactly [""] + payload, to one connection
        i = 0
        while i < len(po):
            op, tk = po[i]
            if op[0] == "send" and tk == "s=ok":
                frames = S.frames_of_tok(op[1])
                wires = []
                j = i + 1
                while j < len(po) and po[j][0][0] != "send":
                    if po[j][0][0] == "wire":
                        wires.append(po[j][1].split("=", 1)[1])
                    j += 1
                got = [w for w in wires if w != "-"]
                if got != [S.enc([b""] + frames)]:
                    return "REQ request on the wire is not exactly one delimiter + payload on one connection: %s" % str([g[:60] for g in got])
                i = j
                continue
            i += 1
    elif kind == "v":
        envs = {}
        cur = None
        i = 0
        while i < len(po):
            op, tk = po[i]
            if op[0] == "feed":
                envs[op[1]] = W.untok(op[2])
                cur_feed = op[1]
            elif op[0] == "recv":
                want = "r=ok:" + W.tok(b"q-" + cur_feed.encode())
                if tk != want:
                    return "REP did not hand over exactly the frames after the first delimiter: %s (expected %s)" % (tk[:80], want)
                cur = cur_feed
            elif op[0] == "send":
                if tk != "s=ok":
                    return "REP reply failed: " + tk
                reply = S.frames_of_tok(op[1])
                feed = envs[cur]
                env = feed[: len(feed) - len(W.msg([b"q-" + cur.encode()]))]
                for j in (1, 2, 3):
                    c = po[i + j][0][1]
                    got = po[i + j][1].split("=", 1)[1]
                    want = (env + W.msg(reply)).hex() if c == cur else "-"
                    if got != want:
                        return "reply to %s's request: wire of %s is %s, expected %s (the envelope of the request being answered, on its connection only)" % (cur, c, got[:80], want[:80])
                i += 3
            i += 1
    elif kind == "m":
        if t == "REP":
            if not str(po[2][1]).startswith("r=err") and "r=ok:" in str(po[2][1]):
                # [a,b] and [a,b,c] have no delimiter: the first frame is taken as envelope (mirrored, not judged)
                pass
    elif kind == "h":
        feed = S.frames_of_tok(po[3][0][1].split(";", 2)[2])
        got = po[2][1]
        if not got.startswith("r=ok:@a;-;"):
            return "ROUTER did not prepend exactly the sender's identity: " + got[:100]
        if po[4][1] != "wire:a=" + S.enc([b""] + feed):
            return "ROUTER did not strip exactly the identity frame on the way back: " + str(po[4][1])[:100]
    return None


def nontrivial(line):
    return True


def classify(line, what):
    return "c07-" + ("zero-frames" if "zero frames" in what else line.split()[0][0])


norm_model = norm_impl
