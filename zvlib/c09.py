"""C09 - ROUTER labels inbound messages with the true sender and routes by first frame."""
from . import common as C
from . import wire as W
from . import sockcheck as S

PID = "C09"
RULE = ("ROUTER with 1-4 scripted DEALER/REQ peers, identities announced (1, 16, 255 bytes) or auto-assigned; seeded interleavings of their "
        "(possibly segmented) sends, of recv calls and of sends to each live peer, an unknown identity, the empty frame, a 256-byte frame and "
        "a peer that has gone; per-connection ground truth kept by the harness; distinct = distinct scenario; non-trivial = >= 2 peers or a failing target")


def cases(tier, rng):
    out = []
    k = 0
    n = 500 if tier == "quick" else 6000
    for _ in range(n):
        nc = rng.randint(1, 4)
        names = "abcd"[:nc]
        ann = {}
        ops = []
        for c in names:
            if rng.random() < 0.5:
                ann[c] = bytes([0x41 + ord(c) - 97]) * rng.choice([1, 16, 255])
                ops.append("attach %s %s id=%s" % (c, rng.choice(["DEALER", "REQ"]), W.tok(ann[c])))
            else:
                ops.append("attach %s %s" % (c, rng.choice(["DEALER", "REQ"])))
        seq = {c: 0 for c in names}
        pend = {}
        gone = set()
        for _ in range(rng.randint(4, 22)):
            r = rng.random()
            c = rng.choice(names)
            if r < 0.35 and c not in gone:
                if c in pend:
                    ops.append("feed %s %s" % (c, W.tok(pend.pop(c))))
                else:
                    fr = [("%s%d" % (c, seq[c])).encode()] + [bytes(rng.randrange(256) for _ in range(rng.choice([0, 1, 3, 300]))) for _ in range(rng.choice([0, 1, 2]))]
                    seq[c] += 1
                    b = W.msg(fr)
                    if rng.random() < 0.3:
                        cut = rng.randint(1, len(b) - 1)
                        pend[c] = b[cut:]
                        b = b[:cut]
                    ops.append("feed %s %s" % (c, W.tok(b)))
            elif r < 0.6:
                ops.append("recv")
            elif r < 0.9:
                rest = [bytes(rng.randrange(256) for _ in range(rng.choice([0, 1, 5, 260]))) for _ in range(rng.choice([1, 1, 2, 3]))]
                q = rng.random()
                if q < 0.65:
                    tgt = W.tok(ann[c]) if c in ann else "@" + c
                elif q < 0.8:
                    tgt = W.tok(b"unknown-peer")
                elif q < 0.9:
                    tgt = "-"
                else:
                    tgt = "r256.51"
                ops.append("send " + ";".join([tgt] + [W.tok(f) for f in rest]))
                ops += ["wire " + x for x in names]
            elif r < 0.95 and c not in gone:
                # the peer goes away mid-message: ROUTER observes the failure on a later recv and forgets it
                ops.append("feed %s 0009aabb" % c)
                ops.append("eof " + c)
                gone.add(c)
                pend.pop(c, None)
                ops += ["recv"]
        ops += ["recv", "recv"]
        out.append("r%d sock ROUTER / %s" % (k, " / ".join(ops)))
        k += 1
    # a peer leaves and a new connection announces the same identity: routing follows the connected one
    for idl in (1, 16, 255):
        ident = W.tok(b"J" * idl)
        for leave in ("eof", "cut"):
            ops = ["attach a DEALER id=" + ident, "feed a " + W.tok(W.msg([b"one"])), "recv"]
            ops += ["eof a"] if leave == "eof" else ["feed a 0009aa", "eof a"]
            ops += ["recv", "attach b DEALER id=" + ident, "send %s;6869" % ident, "wire a", "wire b",
                    "feed b " + W.tok(W.msg([b"two"])), "recv", "send %s;796f" % ident, "wire a", "wire b"]
            out.append("j%d sock ROUTER / %s" % (k, " / ".join(ops)))
            k += 1
    # peers whose READY carries an Identity property that is present but EMPTY (what libzmq sends by default):
    # each must get its own generated identity
    for n in (2, 3):
        for pt in ("DEALER", "REQ"):
            cs = "abc"[:n]
            ops = ["attach %s %s id=-" % (c, pt) for c in cs]
            for c in cs:
                body = [b"from-" + c.encode()] if pt == "DEALER" else [b"", b"from-" + c.encode()]
                ops.append("feed %s %s" % (c, W.tok(W.msg(body))))
            ops += ["recv"] * (n + 1)
            for c in cs:
                ops += ["send @%s;746f2d%02x" % (c, ord(c))] + ["wire " + x for x in cs]
            out.append("e%d sock ROUTER / %s" % (k, " / ".join(ops)))
            k += 1
    # announced identities that look like generated ones (libzmq style: a zero octet and a 32-bit counter) next to peers
    # that announce none: a generated identity must not collide with any identity in use
    for pt in ("DEALER", "REQ"):
        ann_ids = [bytes([0, 0, 0, 0, n]) for n in (1, 2, 3, 4)]
        cs = "abcdefgh"
        ops = ["attach %s %s id=%s" % (c, pt, i.hex()) for c, i in zip(cs[:4], ann_ids)]
        ops += ["attach %s %s" % (c, pt) for c in cs[4:]]
        for c in cs:
            body = [b"from-" + c.encode()] if pt == "DEALER" else [b"", b"from-" + c.encode()]
            ops.append("feed %s %s" % (c, W.tok(W.msg(body))))
        ops += ["recv"] * (len(cs) + 1)
        for c, i in zip(cs[:4], ann_ids):
            ops += ["send %s;746f2d%02x" % (i.hex(), ord(c))] + ["wire " + x for x in cs]
        for c in cs[4:]:
            ops += ["send @%s;746f2d%02x" % (c, ord(c))] + ["wire " + x for x in cs]
        out.append("e%d sock ROUTER / %s" % (k, " / ".join(ops)))
        k += 1
    # back-pressure on the routed connection (the writer answers Pending / accepts a few bytes per call): when send returns
    # Ok the whole message, minus its first frame, is on that connection
    for plan in ("p", "p,p,w1", "w1,p,w2,p", "w3,p,p,p,w1,p", "p,w200,p"):
        for size in (1, 300, 70000):
            ops = ["attach a DEALER", "attach b DEALER", "wplan a " + plan, "send @a;%s;%s" % (W.tok(b"h"), W.tok(b"x" * size)), "wire a", "wire b",
                   "send @b;6f6b", "wire a", "wire b"]
            out.append("b%d sock ROUTER / %s" % (k, " / ".join(ops)))
            k += 1
    # identities that differ only in a trailing / leading zero octet are different identities
    for pt in ("DEALER", "REQ"):
        idents = [b"node-7", b"node-7\x00", b"\x00node-7", b"node-7\x00\x00"]
        cs = "abcd"
        ops = ["attach %s %s id=%s" % (c, pt, i.hex()) for c, i in zip(cs, idents)]
        for c in cs:
            body = [b"from-" + c.encode()] if pt == "DEALER" else [b"", b"from-" + c.encode()]
            ops.append("feed %s %s" % (c, W.tok(W.msg(body))))
        ops += ["recv"] * (len(cs) + 1)
        for c, i in zip(cs, idents):
            ops += ["send %s;746f2d%02x" % (i.hex(), ord(c))] + ["wire " + x for x in cs]
        out.append("e%d sock ROUTER / %s" % (k, " / ".join(ops)))
        k += 1
    # a send that is abandoned while the connection does not take bytes leaves the peer connected and routable
    for polls in (1, 2, 3):
        for size in (1, 70000):
            ops = ["attach a DEALER", "attach b DEALER", "wmode a stall", "sendp %d @a;%s" % (polls, W.tok(b"x" * size)), "wmode a all",
                   "send @a;6f6b", "wire a", "wire b", "feed a " + W.tok(W.msg([b"hi"])), "recv"]
            out.append("a%d sock ROUTER / %s" % (k, " / ".join(ops)))
            k += 1
    # identities "just ahead" of the last generated one (what a counter-like generator would hand out next) announced by
    # some peers, then peers that announce none: a generated identity must never collide with one in use
    for pt in ("DEALER", "REQ"):
        for incs in ((1, 2), (1, 2, 3, 4), (2, 1)):
            anon1, ann, anon2 = "p", "abcd"[:len(incs)], "qrst"[:len(incs) + 1]
            ops = ["attach p %s" % pt] + ["attach %s %s id=next+%d" % (c, pt, i) for c, i in zip(ann, incs)] + ["attach %s %s" % (c, pt) for c in anon2]
            allc = anon1 + ann + anon2
            for c in allc:
                body = [b"from-" + c.encode()] if pt == "DEALER" else [b"", b"from-" + c.encode()]
                ops.append("feed %s %s" % (c, W.tok(W.msg(body))))
            ops += ["recv"] * (len(allc) + 1)
            for c in anon1 + anon2:
                ops += ["send @%s;746f2d%02x" % (c, ord(c))] + ["wire " + x for x in allc]
            out.append("n%d sock ROUTER / %s" % (k, " / ".join(ops)))
            k += 1
    # routing over connections that answer every write from a script (compared with Model/DirSend.v)
    from . import scripted
    out += scripted.router_cases(tier, rng, k)
    return out


def compare_filter(line):
    return not line.startswith(("j", "n", "b", "a"))      # the model assumes distinct identities and writers that accept everything


def model_cases(case_lines):
    from . import scripted
    return [scripted.router_model(l) if l.startswith("k") else l for l in case_lines]


def norm_impl(o, line):
    if line.startswith("k"):
        from . import scripted
        return scripted.norm(o)
    return S.canon_impl(o, line)


def norm_model(o, line):
    return o if line.startswith("k") else S.canon_impl(o, line)


def judge(line, obs, orc):
    if S.bad_obs(obs):
        return "implementation " + str(obs)[:80]
    if line.startswith("k"):
        from . import scripted
        return scripted.router_judge(line, obs)
    t, po = S.pair_ops_obs(line, obs)
    if line.startswith("a"):
        snd = [tk for op, tk in po if op[0] == "send"][0]
        wa = [tk for op, tk in po if op[0] == "wire" and op[1] == "a"][0].split("=", 1)[1]
        wb = [tk for op, tk in po if op[0] == "wire" and op[1] == "b"][0].split("=", 1)[1]
        rc = [tk for op, tk in po if op[0] == "recv"][0]
        if snd != "s=ok" or not wa.endswith(S.enc([b"ok"])) or wb != "-":
            return "after an abandoned send the peer is no longer routable: %s wire a=...%s wire b=%s" % (snd, wa[-20:], wb[:20])
        if rc != "r=ok:@a;6869":
            return "after an abandoned send the peer's messages are no longer received under its label: " + rc
        return None
    if line.startswith("n"):
        names = [op[1] for op, tk in po if op[0] == "attach"]
        for op, tk in po:
            if op[0] == "attach" and not tk.startswith("att:%s=ok:" % op[1]):
                return "peer not admitted: " + tk
            if op[0] == "attach" and ("auto-dup" in tk or "EMPTY" in tk):
                return "a generated identity collides with an identity in use: " + tk
        got = {}
        for op, tk in po:
            if op[0] == "recv" and tk.startswith("r=ok:"):
                fr = tk[5:].split(";")
                payload = W.untok(fr[-1]).decode()
                who = payload[-1]
                if fr[0] in got:
                    return "two connections' messages carry the same label %s (%s and %s)" % (fr[0][:20], got[fr[0]], who)
                got[fr[0]] = who
                if fr[0].startswith("@") and fr[0][1:] != who:
                    return "message of %s labelled as %s" % (who, fr[0])
        if sorted(got.values()) != sorted(names):
            return "not every connected peer's message was returned under a label of its own: got %s of %s" % (sorted(got.values()), sorted(names))
        i = 0
        while i < len(po):
            op, tk = po[i]
            if op[0] == "send":
                who = op[1].split(";")[0][1:]
                rest = S.frames_of_tok(op[1].split(";", 1)[1])
                j = i + 1
                while j < len(po) and po[j][0][0] == "wire":
                    c = po[j][0][1]
                    wv = po[j][1].split("=", 1)[1]
                    want = S.enc(rest) if c == who else "-"
                    if tk != "s=ok" or wv != want:
                        return "message for %s: %s, wire of %s is %s (expected %s)" % (who, tk, c, wv[:40], want[:40])
                    j += 1
                i = j
                continue
            i += 1
        return None
    if line.startswith("j"):
        # after b registered under the identity, every successful send to it is written to b and nothing to a
        seen_b = False
        i = 0
        while i < len(po):
            op, tk = po[i]
            if op[0] == "attach" and op[1] == "b":
                seen_b = True
            if op[0] == "send" and seen_b:
                w = {po[i + 1][0][1]: po[i + 1][1].split("=", 1)[1], po[i + 2][0][1]: po[i + 2][1].split("=", 1)[1]}
                rest = S.frames_of_tok(op[1].split(";", 1)[1])
                if tk != "s=ok" or w["b"] != S.enc(rest) or w["a"] != "-":
                    return "message for the identity of the connected peer b: %s, wire a=%s wire b=%s" % (tk, w["a"][:40], w["b"][:40])
                i += 3
                continue
            i += 1
        rb = [tk for op, tk in po if op[0] == "recv"]
        if not any(r.endswith(";" + W.tok(b"two")) for r in rb):
            return "message of the re-connected peer was not delivered: %s" % rb
        return None
    ann = {}
    fed = {}
    queue = {}
    removed = set()
    closed = set()
    for op, tk in po:
        if op[0] == "attach":
            c = op[1]
            fed[c] = b""
            queue[c] = []
            for o in op[3:]:
                if o.startswith("id=") and W.untok(o[3:]):
                    ann[c] = W.untok(o[3:])     # an Identity property that is present but empty announces nothing
        elif op[0] == "feed":
            c = op[1]
            fed[c] += W.untok(op[2])
        elif op[0] == "eof":
            closed.add(op[1])
        elif op[0] == "recv":
            if tk.startswith("r=ok:"):
                fr = tk[5:].split(";")
                label = fr[0]
                who = None
                if label.startswith("@"):
                    who = label[1:]
                else:
                    lb = W.untok(label)
                    who = next((c for c, a in ann.items() if a == lb), None)
                if who is None or (label.startswith("@") and who in ann):
                    return "ROUTER labelled a message with an identity no connection registered: " + tk[:100]
                # the rest must be the next complete message that connection sent
                frames = scen_parse(fed[who])
                idx = len(queue[who])
                if idx >= len(frames) or [W.untok(x) for x in fr[1:]] != frames[idx]:
                    return "message labelled %s is not the next message that connection sent: %s" % (who, tk[:120])
                queue[who].append(idx)
            elif tk.startswith("r=err"):
                return "ROUTER recv surfaced an error: " + tk
        elif op[0] == "send":
            pass
    # sends: exact delivery / exact failure; checked on the wire snapshots that follow each send
    i = 0
    seen_gone = set()
    while i < len(po):
        op, tk = po[i]
        if op[0] == "eof":
            pass
        if op[0] == "send":
            fr = op[1].split(";")
            tgt = fr[0]
            rest = [W.untok(x) for x in fr[1:]]
            wires = {}
            j = i + 1
            while j < len(po) and po[j][0][0] == "wire":
                wires[po[j][0][1]] = po[j][1].split("=", 1)[1]
                j += 1
            if tgt.startswith("@"):
                who = tgt[1:]
            else:
                tb = W.untok(tgt)
                who = next((c for c, a in ann.items() if a == tb), None)
            if tk == "s=ok":
                if who is None:
                    return "send to an identity nobody registered succeeded: " + op[1][:80]
                for c, wv in wires.items():
                    want = S.enc(rest) if c == who else "-"
                    if wv != want:
                        return "send to %s: wire of %s is %s (expected %s)" % (who, c, wv[:80], want[:80])
            else:
                for c, wv in wires.items():
                    if wv != "-":
                        return "failed send wrote to %s: %s" % (c, wv[:80])
                if who is not None and who not in closed:
                    return "send to connected peer %s failed: %s" % (who, tk)
            i = j
            continue
        i += 1
    return None


def scen_parse(b):
    """complete messages in a byte stream (python splitter used for harness ground truth only)"""
    from . import scen
    fr = scen.parse_frames_prefix(b)
    msgs, cur = [], []
    for fl, d in fr:
        if fl & 4:
            continue
        cur.append(d)
        if not fl & 1:
            msgs.append(cur)
            cur = []
    return msgs


def nontrivial(line):
    return line.count("attach") >= 2 or "unknown" in line


def classify(line, what):
    return "c09-label" if "label" in what else "c09-route"


