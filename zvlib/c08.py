"""C08 - REQ/REP lock-step."""
import itertools
from . import common as C
from . import wire as W
from . import sockcheck as S

PID = "C08"
EXHAUSTIVE = {"quick": True, "thorough": True}
RULE = ("exhaustive call sequences over {send, recv} of length 1..6 on a real REQ (scripted REP peer that answers / stays silent / has closed) "
        "and on a real REP (1-2 scripted REQ peers, requests available or not), judged by a two-state reference machine; plus seeded "
        "interleavings of 1-4 lock-step clients against one REP with segmented arrivals; distinct = distinct case; non-trivial = all")


def cases(tier, rng):
    out = []
    k = 0
    for n in range(1, 7):
        for seq in itertools.product("sr", repeat=n):
            for peer in ("answers", "silent", "closed", "junk"):
                ops = ["attach a REP"]
                if peer == "answers":
                    ops.append("feed a " + W.tok(b"".join(W.msg([b"", b"reply%d" % i]) for i in range(7))))
                elif peer == "junk":
                    # replies that are not replies: no delimiter, a single frame, only a delimiter - one per request
                    junk = [[b"junk", b"not-a-reply"], [b"solo"], [b""], [b"x" * 300, b""], [b"j", b"", b"k"], [b"z"], [b"a", b"b", b"c"]]
                    ops.append("feed a " + W.tok(b"".join(W.msg(m) for m in junk)))
                elif peer == "closed":
                    ops.append("eof a")
                j = 0
                for c in seq:
                    if c == "s":
                        ops.append("send %s" % W.tok(b"req%d" % j))
                        ops.append("wire a")
                        j += 1
                    else:
                        ops.append("recv")
                out.append("q%d.%s sock REQ / %s" % (k, peer, " / ".join(ops)))
                k += 1
            # two servers: accepted requests alternate between them; a refused (out-of-turn) call changes nothing,
            # in particular not whose turn it is
            ops = ["attach a REP", "attach b REP"]
            for c in "ab":
                ops.append("feed %s %s" % (c, W.tok(b"".join(W.msg([b"", b"%s%d" % (c.encode(), i)]) for i in range(7)))))
            j = 0
            for c in seq:
                if c == "s":
                    ops += ["send %s" % W.tok(b"req%d" % j), "wire a", "wire b"]
                    j += 1
                else:
                    ops.append("recv")
            out.append("m%d sock REQ / %s" % (k, " / ".join(ops)))
            k += 1
            for npeers, avail in ((1, True), (1, False), (2, True)):
                ops = ["attach a REQ"] + (["attach b REQ"] if npeers == 2 else [])
                if avail:
                    ops.append("feed a " + W.tok(b"".join(W.msg([b"", b"a%d" % i]) for i in range(4))))
                    if npeers == 2:
                        ops.append("feed b " + W.tok(b"".join(W.msg([b"", b"b%d" % i]) for i in range(4))))
                j = 0
                for c in seq:
                    if c == "s":
                        ops.append("send %s" % W.tok(b"rep%d" % j))
                        ops += ["wire a"] + (["wire b"] if npeers == 2 else [])
                        j += 1
                    else:
                        ops.append("recv")
                out.append("p%d.%d%s sock REP / %s" % (k, npeers, "y" if avail else "n", " / ".join(ops)))
                k += 1
    # a malformed request (no delimiter and a single frame / delimiter last / only a delimiter) from one connection is an
    # error for recv and changes nothing else: a pending request keeps its requester, no request means no reply
    junk = [[b"solo"], [b""], [b"x", b""], [b"k" * 300]]
    for jm in junk:
        jt = W.tok(W.msg(jm))
        good = W.tok(W.msg([b"", b"b0"]))
        for variant in range(4):
            ops = ["attach a DEALER", "attach b REQ"]
            if variant == 0:      # junk only: the reply must be handed back
                ops += ["feed a " + jt, "recv", "send 4f4b", "wire a", "wire b"]
            elif variant == 1:    # genuine request pending, then junk, then the reply
                ops += ["feed b " + good, "recv", "feed a " + jt, "recv", "send 4f4b", "wire a", "wire b"]
            elif variant == 2:    # junk first, then the genuine request
                ops += ["feed a " + jt, "recv", "feed b " + good, "recv", "send 4f4b", "wire a", "wire b"]
            else:                 # junk queued behind the genuine request on another connection, both ready at once
                ops += ["feed b " + good, "feed a " + jt, "recv", "recv", "send 4f4b", "wire a", "wire b", "send 4f4b", "wire a", "wire b"]
            out.append("c%d sock REP / %s" % (k, " / ".join(ops)))
            k += 1
    # a connection that FAILS (undecodable bytes, cut inside a frame, reset) while another client's request is being served:
    # the failure is reported by recv, the request stays pending, the reply goes to its requester
    for bad, extra in (("040105", []), ("0009aabb", ["eof a"]), ("13", []), ("", ["rerr a ConnectionReset"])):
        good = W.tok(W.msg([b"", b"b0"]))
        ops = ["attach a REQ", "attach b REQ", "feed b " + good, "recv"] + (["feed a " + bad] if bad else []) + extra
        ops += ["recv", "send 4f4b", "wire a", "wire b"]
        out.append("c%d sock REP / %s" % (k, " / ".join(ops)))
        k += 1
    # a request whose write fails changes nothing but the peer set: the next request goes out (to the next server), a recv
    # right after the failed send is still out of turn
    for kind in ("BrokenPipe", "ConnectionReset"):
        for nxt in ("send", "recv"):
            ops = ["attach a REP", "attach b REP", "wmode a broken=%s" % kind, "send 7231", "wire b"]
            if nxt == "recv":
                ops += ["recv"]
            ops += ["send 7232", "wire b", "feed b " + W.tok(W.msg([b"", b"ok"])), "recv", "recv", "send 7233", "wire b"]
            out.append("w%d sock REQ / %s" % (k, " / ".join(ops)))
            k += 1
    # the requester goes away between request and reply (REP learns it from a recv), the reply fails; a new connection
    # under the same identity that never made a request must not be sent a later reply
    for idl in (1, 16):
        ident = W.tok(b"Q" * idl)
        for how in ("cut", "eof"):
            ops = ["attach a REQ id=" + ident, "feed a " + W.tok(W.msg([b"", b"a0"])), "recv"]
            ops += (["feed a 0009aabb", "eof a"] if how == "cut" else ["eof a"]) + ["recv", "send 7231", "wire a",
                    "attach b REQ id=" + ident, "send 7232", "wire b", "feed b " + W.tok(W.msg([b"", b"b0"])), "recv", "send 7233", "wire b"]
            out.append("g%d sock REP / %s" % (k, " / ".join(ops)))
            k += 1
    # two connections announcing the same identity: the newer replaces the older; requests and replies stay paired
    for idl in (1, 5, 255):
        ident = W.tok(b"I" * idl)
        for who in ("a", "b"):
            ops = ["attach a REQ id=" + ident, "attach b REQ id=" + ident,
                   "feed %s %s" % (who, W.tok(W.msg([b"", b"q-" + who.encode()]))), "recv", "send 7265706c79", "wire a", "wire b"]
            out.append("d%d sock REP / %s" % (k, " / ".join(ops)))
            k += 1
    # concurrent lock-step clients: requests arrive segmented, at random times; server loop recv; send f(req)
    for it in range(150 if tier == "quick" else 2500):
        nc = rng.randint(1, 4)
        names = "abcd"[:nc]
        ops = ["attach %s REQ" % c for c in names]
        nxt = {c: 0 for c in names}
        pend = {}
        for _ in range(rng.randint(4, 20)):
            r = rng.random()
            c = rng.choice(names)
            if r < 0.45:
                if c in pend:
                    ops.append("feed %s %s" % (c, W.tok(pend.pop(c))))
                elif nxt[c] < 5:
                    b = W.msg([b"", ("%s%d" % (c, nxt[c])).encode(), b"x" * rng.choice([0, 1, 300])])
                    nxt[c] += 1
                    if rng.random() < 0.4:
                        cut = rng.randint(1, len(b) - 1)
                        pend[c] = b[cut:]
                        b = b[:cut]
                    ops.append("feed %s %s" % (c, W.tok(b)))
            else:
                ops += ["recv", "send 4f4b"] + ["wire " + x for x in names]
        out.append("c%d sock REP / %s" % (k, " / ".join(ops)))
        k += 1
    # REQ's send over connections that answer every write from a script (compared with Model/DirSend.v)
    from . import scripted
    out += scripted.req_cases(tier, rng, k)
    return out


def compare_filter(line):
    return not line.startswith(("d", "w", "g")) and " rerr " not in line      # the model assumes distinct identities and has no write faults


def model_cases(case_lines):
    from . import scripted
    return [scripted.req_model(l) if l.startswith("k") else l for l in case_lines]


def norm_impl(o, line):
    if line.startswith("k"):
        from . import scripted
        return scripted.norm(o)
    return S.canon_impl(o, line)


def norm_model(o, line):
    return o if line.startswith("k") else S.canon_impl(o, line)


def judge(line, obs, orc):
    if S.bad_obs(obs):
        return "implementation " + str(obs)[:80]
    if line.startswith("k"):
        from . import scripted
        return scripted.rotation_judge(line, obs, [b""])
    t, po = S.pair_ops_obs(line, obs)
    kind = line.split()[0][0]
    if kind == "q":
        peer = line.split()[0].split(".")[1]
        owing = False
        nrep = 0
        last_send = None
        gone = False       # the only server closed and the socket has observed it: no peer is left
        for op, tk in po:
            if op[0] == "send" and gone and not owing:
                want = "s=err:ReturnToSender:" + op[1]
                if tk != want:
                    return "send on REQ with no peer left: %s (expected %s)" % (tk, want)
                last_send = False
                continue
            if op[0] == "send":
                if owing:
                    want = "s=err:ReturnToSender:" + op[1]
                    if tk != want:
                        return "out-of-turn send on REQ: %s (expected %s)" % (tk, want)
                    last_send = False
                else:
                    if tk != "s=ok":
                        return "in-turn send on REQ failed: %s" % tk
                    owing = True
                    last_send = op[1]
            elif op[0] == "wire":
                want = "wire:a=" + (S.enc([b""] + S.frames_of_tok(last_send)) if last_send else "-")
                if tk != want:
                    return "REQ wire after send: %s (expected %s)" % (tk, want)
            elif op[0] == "recv":
                if not owing:
                    if tk != "r=err:Other":
                        return "out-of-turn recv on REQ: %s" % tk
                elif peer == "answers":
                    want = "r=ok:" + W.tok(b"reply%d" % nrep)
                    if tk != want:
                        return "REQ recv returned %s, expected %s" % (tk, want)
                    nrep += 1
                    owing = False
                elif peer == "junk":
                    if not tk.startswith("r=err"):
                        return "REQ recv returned %s for a malformed reply" % tk
                    owing = False       # the reply (such as it was) has been consumed and reported: the exchange is over
                elif peer == "silent":
                    if tk != "r=pending":
                        return "REQ recv with a silent peer: %s" % tk
                else:
                    if not tk.startswith("r=err"):
                        return "REQ recv with a closed peer: %s" % tk
                    owing = False
                    gone = True
    elif kind == "m":
        owing = None          # server that owes a reply
        last = None           # server of the previous accepted request
        got = {"a": 0, "b": 0}
        expect_wire = None
        for op, tk in po:
            if op[0] == "send":
                if owing:
                    if tk != "s=err:ReturnToSender:" + op[1]:
                        return "out-of-turn send on REQ: %s" % tk
                    expect_wire = {}
                else:
                    if tk != "s=ok":
                        return "in-turn send on REQ with two servers failed: %s" % tk
                    expect_wire = {"new": S.enc([b""] + S.frames_of_tok(op[1]))}
                seen = {}
            elif op[0] == "wire":
                seen[op[1]] = tk.split("=", 1)[1]
                if len(seen) == 2:
                    if not expect_wire:
                        if any(v != "-" for v in seen.values()):
                            return "a refused request was written to a server: %s" % seen
                    else:
                        to = [c for c in "ab" if seen[c] != "-"]
                        if len(to) != 1 or seen[to[0]] != expect_wire["new"]:
                            return "request not written whole to exactly one server: %s" % seen
                        if last is not None and to[0] == last:
                            return ("two consecutive requests went to server %s: the rotation between the two servers was disturbed "
                                    "(by a refused call in between, if any)" % last)
                        last = owing = to[0]
            elif op[0] == "recv":
                if not owing:
                    if tk != "r=err:Other":
                        return "out-of-turn recv on REQ: %s" % tk
                else:
                    want = "r=ok:" + W.tok(b"%s%d" % (owing.encode(), got[owing]))
                    if tk != want:
                        return "REQ recv returned %s, expected the reply of the server asked: %s" % (tk, want)
                    got[owing] += 1
                    owing = None
    elif kind == "g":
        sends = [(op, tk) for op, tk in po if op[0] == "send"]
        wires = [(op, tk) for op, tk in po if op[0] == "wire"]
        # first reply: the requester is gone (if REP has learnt it the reply fails; an orderly close between messages is the
        # listed C16 finding and the reply is then written to the dead connection): nothing to judge here
        # second send: b never made a request
        if sends[0][1] != "s=ok":
            if not sends[1][1].startswith("s=err:ReturnToSender:7232") or wires[1][1] != "wire:b=-":
                return "REP sent a reply to a connection that never made a request (after the reply to a vanished requester had failed): %s %s" % (sends[1][1], wires[1][1][:60])
        # third: b's genuine request is answered on b
        rc = [tk for op, tk in po if op[0] == "recv"][-1]
        if rc != "r=ok:6230":
            return "request of the new connection not returned: " + rc
        if sends[2][1] != "s=ok" or not wires[2][1].endswith(S.enc([b"", b"r3"])):
            return "reply to the new connection's request: %s %s" % (sends[2][1], wires[2][1][:60])
    elif kind == "w":
        toks = [(op, tk) for op, tk in po if op[0] in ("send", "recv", "wire")]
        first = toks[0][1]
        if first == "s=ok":
            # the fault was not hit by this write (rotation started at b): nothing to judge
            return None
        i = 2
        if toks[i][0][0] == "recv":
            if not toks[i][1].startswith("r=err"):
                return "recv right after a failed request was accepted: " + toks[i][1]
            i += 1
        if toks[i][1] != "s=ok" or toks[i + 1][1] != "wire:b=" + S.enc([b"", b"r2"]):
            return "after a request whose write failed the next request was not sent to the remaining server: %s %s" % (toks[i][1], toks[i + 1][1][:60])
        if toks[i + 2][1] != "r=ok:6f6b":
            return "reply to the second request not returned: " + toks[i + 2][1]
        if not toks[i + 3][1].startswith("r=err"):
            return "second recv accepted: " + toks[i + 3][1]
        if toks[i + 4][1] != "s=ok":
            return "third request refused: " + toks[i + 4][1]
    elif kind == "d":
        # the request came over connection `who` (the only one that sent anything): if it is returned, the reply must be on that wire
        who = [op[1] for op, tk in po if op[0] == "feed"][0]
        rcv = [tk for op, tk in po if op[0] == "recv"][0]
        wires = {op[1]: tk.split("=", 1)[1] for op, tk in po if op[0] == "wire"}
        snd = [tk for op, tk in po if op[0] == "send"][0]
        if rcv.startswith("r=ok:"):
            other = "b" if who == "a" else "a"
            if snd != "s=ok" or wires[who] != S.enc([b"", b"reply"]) or wires[other] != "-":
                return "request read from connection %s but the reply went elsewhere: %s %s" % (who, snd, wires)
        elif any(v != "-" for v in wires.values()):
            return "a reply was written although no request was returned: %s" % wires
    elif kind in ("p", "c"):
        cur = None      # connection whose request is being served
        names = sorted(set(op[1] for op, _ in po if op[0] == "attach"))
        lastsend_ok = None
        for op, tk in po:
            if op[0] == "recv":
                if tk.startswith("r=ok:"):
                    fr = S.frames_of_tok(tk[5:])
                    cur = chr(fr[0][0])
                    if cur not in names:
                        return "REP returned a request that no client sent: " + tk
                elif tk.startswith("r=err"):
                    pass
            elif op[0] == "send":
                if cur is None:
                    if not tk.startswith("s=err:ReturnToSender:" + op[1]):
                        return "REP accepted a reply without a request: %s" % tk
                    lastsend_ok = (None, None)
                else:
                    if tk != "s=ok":
                        return "REP reply failed: %s" % tk
                    lastsend_ok = (cur, S.frames_of_tok(op[1]))
                    cur = None
            elif op[0] == "wire" and lastsend_ok is not None:
                who, fr = lastsend_ok
                if op[1] == who:
                    if tk != "wire:%s=%s" % (who, S.enc([b""] + fr)):
                        return "REP reply not written to the requester: %s" % tk
                elif not tk.endswith("=-"):
                    return "REP wrote a reply to a connection that did not ask: %s" % tk
    return None


def nontrivial(line):
    return True


def classify(line, what):
    return "c08-" + line.split()[2].lower()


