"""C13 - a SUB socket's subscriptions reach every peer, including late joiners."""
import itertools
from . import common as C
from . import wire as W
from . import sockcheck as S
from .c09 import scen_parse

PID = "C13"
EXHAUSTIVE = {"quick": True, "thorough": True}
TOPICS = [b"", b"A", b"B"]
KNOWN = "sub-accept-race"
RULE = ("real SUB socket: ALL histories of subscribe/unsubscribe over topics {'', A, B} up to length 4 (quick) / 5 (thorough) with a peer joining "
        "(connect-side) at EVERY position, plus 2-3 peers joining at seeded positions; one peer's connection failing during an update; a peer "
        "accepted concurrently with a subscribe (its registration held between the socket reading its subscription set and registering it); a "
        "connection failing during the subscription replay; judged at quiescence by folding each peer's wire with the reference counting semantics; "
        "distinct = distinct scenario; non-trivial = a join after at least one subscribe, or a failure")


def cases(tier, rng):
    out = []
    k = 0
    syms = [("sub", t) for t in TOPICS] + [("unsub", t) for t in TOPICS]
    maxlen = 4 if tier == "quick" else 5
    for n in range(0, maxlen + 1):
        for h in itertools.product(syms, repeat=n):
            for joinpos in range(0, n + 1):
                if n == maxlen and tier == "quick" and joinpos not in (0, n // 2, n):
                    continue
                ops = ["attach a PUB"]
                for i, (o, t) in enumerate(h):
                    if i == joinpos:
                        ops.append("attach b PUB")
                    ops.append("%s %s" % (o, W.tok(t)))
                if joinpos == n:
                    ops.append("attach b PUB")
                ops += ["wire a", "wire b"]
                out.append("h%d sock SUB / %s" % (k, " / ".join(ops)))
                k += 1
    # large sets (not round numbers): a peer that joins late is told every one of them, like the peer that was there all along
    for nt in (99, 100, 101, 150, 257, 1001):
        ops = ["attach a PUB"] + ["sub %s" % W.tok(b"t%04d" % i_) for i_ in range(nt)] + ["attach b PUB", "unsub %s" % W.tok(b"t0000"), "attach c PUB", "wire a", "wire b", "wire c"]
        out.append("m%d sock SUB / %s" % (k, " / ".join(ops)))
        k += 1
    for _ in range(200 if tier == "quick" else 3000):
        names = "abc"[:rng.randint(2, 3)]
        ops = []
        joined = []
        pending = list(names)
        for _ in range(rng.randint(3, 12)):
            if pending and rng.random() < 0.3:
                c = pending.pop(0)
                ops.append("attach %s PUB" % c)
                joined.append(c)
            else:
                o, t = rng.choice(syms)
                ops.append("%s %s" % (o, W.tok(t)))
        for c in pending:
            ops.append("attach %s PUB" % c)
            joined.append(c)
        ops += ["wire " + c for c in joined]
        out.append("m%d sock SUB / %s" % (k, " / ".join(ops)))
        k += 1
    # one peer's connection fails during updates: the others must still be told
    for bad in "abc":
        for kind in ("broken=BrokenPipe", "broken=ConnectionReset", "zero"):
            ops = ["attach a PUB", "attach b PUB", "attach c PUB", "sub 41", "wmode %s %s" % (bad, kind), "sub 42", "unsub 41", "sub 43",
                   "wire a", "wire b", "wire c"]
            out.append("f%d.%s sock SUB / %s" % (k, bad, " / ".join(ops)))
            k += 1
            # ... and a peer that joins after the failed updates must be told the same set as the early peers
            for tail in (["unsub 41"], ["unsub 41", "sub 43"], ["unsub 41", "unsub 42"], ["sub 42", "unsub 41", "sub 41", "unsub 41"]):
                ops = ["attach a PUB", "attach b PUB", "attach c PUB", "sub 41", "sub 42", "wmode %s %s" % (bad, kind)] + tail + [
                    "attach d PUB", "wire a", "wire b", "wire c", "wire d"]
                out.append("f%d.%s sock SUB / %s" % (k, bad, " / ".join(ops)))
                k += 1
    # joins interleaved with updates of which one fails on one connection: every later joiner is told the current set
    for bad in "ab":
        for kind in ("broken=BrokenPipe", "broken=ConnectionReset"):
            ops = ["attach a PUB", "attach b PUB", "sub 41", "attach c PUB", "wmode %s %s" % (bad, kind), "sub 42", "attach d PUB",
                   "unsub 41", "attach e PUB", "wire a", "wire b", "wire c", "wire d", "wire e"]
            out.append("f%d.%s sock SUB / %s" % (k, bad, " / ".join(ops)))
            k += 1
    # topics whose subscription message sits on the short/long frame boundary (topic of 254 / 255 / 256 bytes)
    for tl in (253, 254, 255, 256):
        topic = W.tok(bytes([0x41 + (tl + i) % 23 for i in range(tl)]))
        for ops in (["attach a PUB", "sub " + topic, "attach b PUB", "wire a", "wire b"],
                    ["attach a PUB", "sub " + topic, "sub 42", "unsub " + topic, "attach b PUB", "wire a", "wire b"]):
            out.append("m%d sock SUB / %s" % (k, " / ".join(ops)))
            k += 1
    # two publishers announcing the same identity: the one connected last is the peer; it must be told every update
    for idl in (1, 16):
        ident = W.tok(b"P" * idl)
        for pre, post in (([], ["sub 41"]), (["sub 41"], ["sub 42"]), (["sub 41", "sub 42"], ["unsub 41", "sub 43"])):
            ops = pre + ["attach a PUB id=" + ident, "attach b PUB id=" + ident] + post + ["wire b"]
            out.append("i%d sock SUB / %s" % (k, " / ".join(ops)))
            k += 1
    # a connection failing while its subscriptions are replayed
    out.append("r%d sock SUB / sub 41 / attach a PUB / attach b PUB wplan=a,a wmode=broken=BrokenPipe / sub 42 / wire a" % k)
    k += 1
    out.append("r%d sock SUB / sub 41 / attach b PUB bg wplan=a,a wmode=broken=BrokenPipe / yield 3 / join b / sub 42 / attach a PUB / wire a" % k)
    k += 1
    # accept-side join racing with subscribe (held between reading the set and registering the peer)
    out.append("z%d sock SUB / sub 41 / attach a PUB / attach b PUB bg wplan=a,a wmode=stall / yield 3 / sub 42 / wmode b all / join b / settle / wire a / wire b" % k)
    k += 1
    # subscribe / unsubscribe over connections that answer every write from a script (compared with Model/DirSend.v)
    from . import scripted
    out += scripted.sub_cases(tier, rng, k)
    return out


def compare_filter(line):
    return line.split()[0][0] in "hmk"      # (i: same identity twice - the model assumes distinct identities)


def model_cases(case_lines):
    from . import scripted
    return [scripted.sub_model(l) if l.startswith("k") else l for l in case_lines]


def norm_impl(o, line):
    if line.startswith("k"):
        from . import scripted
        return scripted.norm(o)
    return S.canon_impl(o, line)


def norm_model(o, line):
    return o if line.startswith("k") else S.canon_impl(o, line)


def view(wire_hex):
    """what a publisher on the other end computes: per-topic count of the subscription messages"""
    cnt = {}
    b = bytes.fromhex(wire_hex) if wire_hex != "-" else b""
    # a background attach leaves greeting + READY in front of the subscription messages
    if b[:1] == b"\xff" and len(b) >= 66:
        n = 64 + 2 + b[65]
        b = b[n:]
    for m in scen_parse(b):
        if len(m) == 1 and m[0][:1] == b"\x01":
            cnt[m[0][1:]] = cnt.get(m[0][1:], 0) + 1
        elif len(m) == 1 and m[0][:1] == b"\x00" and cnt.get(m[0][1:], 0) > 0:
            cnt[m[0][1:]] -= 1
    return set(t for t, c in cnt.items() if c > 0)


def judge(line, obs, orc):
    if S.bad_obs(obs):
        return "implementation " + str(obs)[:80]
    if line.startswith("k"):
        from . import scripted
        return scripted.sub_judge(line, obs)
    t, po = S.pair_ops_obs(line, obs)
    subs = set()
    broken = set()
    for op, tk in po:
        if op[0] == "sub":
            subs.add(W.untok(op[1]))
        elif op[0] == "unsub":
            subs.discard(W.untok(op[1]))
        elif op[0] == "wmode" and op[2] != "all":
            broken.add(op[1])
        elif op[0] == "attach" and any(o.startswith("wmode=broken") for o in op):
            broken.add(op[1])
    views = {}
    for op, tk in po:
        if op[0] == "wire" and op[1] not in broken:
            views[op[1]] = view(tk.split("=", 1)[1])
    for c, v in views.items():
        if v != subs:
            what = "peer %s believes the subscriptions are %s, the socket's set is %s" % (c, sorted(x.decode() for x in v), sorted(x.decode() for x in subs))
            if line.split()[0].startswith("z"):
                return "KNOWN:" + KNOWN
            return what
    return None


def nontrivial(line):
    return line.count("attach") >= 2 or "wmode" in line


def classify(line, what):
    if what.startswith("KNOWN:"):
        return what[6:]
    return "c13-" + line.split()[0][0]
