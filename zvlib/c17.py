"""C17 - closing or dropping a socket stops its listeners and disconnects all peers."""
import itertools
from . import common as C

PID = "C17"
PARALLEL = True
EXHAUSTIVE = {"quick": False, "thorough": True}
KNOWN = "pending-handshake-survives-close"
RULE = ("the property's grid on the real runtime: 9 socket types x {TCP v4, TCP v6, IPC} x 5 history prefixes (bound only; bound + accepted peers; "
        "connected out; mid-traffic including a recv that parked on the peers' streams; pending inbound handshake) x {close, drop} = 270 cells "
        "(thorough: all; quick: every type x every prefix x {close, drop} on TCP v4 plus every type on IPC and v6 for two prefixes); observed: connect "
        "to the old endpoint, IPC path, end-of-stream at every raw peer within 600 ms, alive task count; the ownership model predicts each cell; "
        "distinct = distinct cell; non-trivial = the prefix has peers or a parked recv")
TYPES = ["PUB", "SUB", "XPUB", "REQ", "REP", "DEALER", "ROUTER", "PUSH", "PULL"]
RECV = ["SUB", "XPUB", "REP", "DEALER", "ROUTER", "PULL"]
PREFIXES = ["bound", "accepted", "connected", "traffic", "handshake"]


def cell(t, transport, prefix, how):
    ops = []
    if prefix != "connected":
        ops.append("bind " + transport)
    if prefix == "accepted":
        ops += ["conn 0", "conn 0"]
    elif prefix == "connected":
        ops += ["connout"]
    elif prefix == "traffic":
        ops += ["conn 0", "conn 0", "xchg 0", "xchg 1"]
        if t in RECV:
            ops.append("park")
    elif prefix == "handshake":
        ops += ["conn 0", "staller 0 off=30 mode=stop"]
    elif prefix == "crowd":
        # one established peer and forty clients that connected and then said nothing
        ops += ["conn 0"] + ["staller 0 off=0 mode=stop"] * 40
    elif prefix == "backlog":
        # subscribers that have stopped reading, with far more published than the kernel buffers and the write mark hold
        ops += ["conn 0", "conn 0", "xchg 0", "flood 48 1000000"]
    ops.append(how)
    if how == "drop":
        ops.append("sleep 150")
    if prefix != "connected":
        ops.append("probe 0")
        if transport == "ipc":
            ops.append("ipcpaths")
    ops += ["peers_eof", "tasks"]
    if prefix in ("accepted", "traffic", "bound") and transport != "ipc":
        # the endpoint is free again: a new socket can bind it at once
        ops.append("rebind 0")
    return " / ".join(ops)


def cases(tier, rng):
    out = []
    k = 0
    for t in TYPES:
        for transport in ("tcp4", "tcp6", "ipc"):
            for prefix in PREFIXES:
                for how in ("close", "drop"):
                    if tier == "quick" and transport != "tcp4" and prefix not in ("traffic", "bound"):
                        continue
                    if prefix == "connected" and transport != "tcp4":
                        continue
                    out.append("g%d.%s.%s.%s.%s rt %s / %s" % (k, t, transport, prefix, how, t, cell(t, transport, prefix, how)))
                    k += 1
        if t in ("REP", "PULL", "PUB"):
            for how in ("close", "drop"):
                out.append("g%d.%s.tcp4.crowd.%s rt %s / %s" % (k, t, how, t, cell(t, "tcp4", "crowd", how)))
                k += 1
        if t in ("PUB", "XPUB"):
            for how in ("close", "drop"):
                out.append("g%d.%s.tcp4.backlog.%s rt %s / %s" % (k, t, how, t, cell(t, "tcp4", "backlog", how)))
                k += 1
        # the same with a monitor whose receiver has been dropped (nobody listens to events any more) and three peers
        for how in ("close", "drop"):
            ops = ["bind tcp4", "conn 0", "conn 0", "conn 0", how] + (["sleep 150"] if how == "drop" else []) + ["probe 0", "peers_eof", "tasks"]
            out.append("g%d.%s.tcp4.accepted.%s rt %s mondrop / %s" % (k, t, how, t, " / ".join(ops)))
            k += 1
    return out


def compare_filter(line):
    return False


def judge(line, obs, orc):
    if obs is None or obs.startswith(("panic", "abort", "hang")) or "PANICS" in obs:
        return "implementation " + str(obs)[:80]
    cid = line.split()[0]
    _, t, transport, prefix, how = cid.split(".")
    toks = obs.split()
    kv = {}
    for tk in toks:
        if "=" in tk:
            a, b = tk.split("=", 1)
            kv[a] = b
    for tk in toks:
        if tk.startswith(("b=err", "c#")) and not (tk.endswith("=ok")) and tk.startswith("c#"):
            return "setup failed: " + tk
    if any(tk.startswith("b=err") for tk in toks):
        return "setup failed (bind): " + obs[:100]
    if "rb#0" in kv and kv["rb#0"] != "ok":
        return "the endpoint of a %s socket (%s) cannot be bound again after %s: %s" % (t, prefix, how, kv["rb#0"])
    if how == "close" and kv.get("close") != "0":
        return "close() reported errors: " + str(kv.get("close"))
    # ownership model: after drop/close nothing is listened on, every connection is released except those
    # owned by a handshake task that has not finished
    nconn = sum(1 for tk in toks if tk.startswith(("c#", "o#", "s#")))
    hs = [i for i, tk in enumerate(t2 for t2 in toks if t2.startswith(("c#", "o#", "s#"))) if toks and False]
    conns = list(range(nconn))
    pending = [j for j, tk in enumerate([x for x in toks if x.startswith(("c#", "o#", "s#"))]) if tk.startswith("s#")]
    mcase = "m own clears=1 table=%s queue=%s wakers=%s binds=0 listeners=0 hs=%s conns=%s eps=0" % (
        ",".join(str(c) for c in conns if c not in pending) or "-",
        ",".join(str(c) for c in conns if c not in pending) if t in RECV else "-",
        ",".join(str(c) for c in conns if c not in pending) if (t in RECV and prefix == "traffic") else "-",
        ",".join(str(c) for c in pending) or "-",
        ",".join(str(c) for c in conns) or "-")
    pred = dict(x.split("=") for x in C.run_model([mcase], "C17.own").get("m", "").split())
    if prefix != "connected":
        want = "refused" if pred.get("listen#0") == "no" else "accepted"
        if kv.get("p#0") != want:
            return "endpoint still accepts connections after %s (probe: %s)" % (how, kv.get("p#0"))
        if transport == "ipc" and kv.get("ipc#0") != "gone":
            return "IPC socket file still exists after %s" % how
    for j in conns:
        want = "no" if pred.get("open#%d" % j) == "yes" else "yes"
        got = kv.get("eof#%d" % j)
        if got is None:
            continue
        if got != want:
            if j in pending:
                return "KNOWN:" + KNOWN
            return "raw peer %d %s end-of-stream after %s (model: connection %s)" % (j, "did not see" if got == "no" else "saw", how, "open" if want == "no" else "released")
    if kv.get("tasks") != "0":
        if pending:
            return "KNOWN:" + KNOWN
        return "%s background task(s) still alive after %s" % (kv.get("tasks"), how)
    if pending:
        return "KNOWN:" + KNOWN
    return None


def nontrivial(line):
    return ".bound." not in line


def classify(line, what):
    if what.startswith("KNOWN:"):
        return what[6:]
    return "c17-" + ("listener" if "endpoint" in what or "IPC" in what else "peer-open" if "raw peer" in what else "tasks" if "task" in what else "other")
