"""C02 - stream reassembly is independent of segmentation."""
import itertools
from . import common as C
from . import wire as W

PID = "C02"
RULE = ("streams = greeting + READY(0-3 props) + messages (1-5 frames incl. empty and >8 KiB) + commands between messages; "
        "each stream is decoded whole and under: every single cut, all pairs of cuts (short streams), byte-at-a-time, "
        "8192-byte reads, seeded random partitions (thorough: all 2^16 partitions of the 16 bytes after the greeting); "
        "distinct = distinct (stream, partition); non-trivial = partition with >= 2 chunks")


def streams(rng, tier):
    ss = []
    G = W.GREETING
    ss.append(G)
    ss.append(G + W.ready(b"DEALER"))
    ss.append(G + W.ready(b"ROUTER", b"ab") + W.msg([b"hi"]))
    ss.append(G + W.ready(b"REQ", None, [(b"X-a", b""), (b"X-b", b"v" * 9)]) + W.msg([b"", b"x", b""]) + W.msg([b"z"]))
    ss.append(G + W.ready(b"PUB") + W.msg([b"a" * 255, b"b" * 256, b""]) + W.ready(b"SUB") + W.msg([b"q"]))
    ss.append(G + W.ready(b"PUSH") + W.msg([b"1", b"2", b"3", b"4", b"5"]) + W.frame(b"\x04PING", cmd=True) + W.msg([b"t"]))
    ss.append(G + W.ready(b"DEALER") + W.frame(b"m1", more=True) + W.ready(b"DEALER") + W.frame(b"m2"))
    ss.append(G + W.ready(b"PULL") + W.msg([b"k" * 9000, b"s"]) + W.msg([b"", b"j" * 8192]))
    ss.append(G + W.ready(b"XPUB") + W.msg([b"\x01topic"]) + W.msg([b"\x00topic"]))
    ss.append(G + W.ready(b"DEALER") + W.frame(b"short-as-long", force_long=True) + W.msg([b"after"]))
    ss.append(G + W.ready(b"DEALER") + W.msg([b"x", b""]))            # the stream ends with an empty last frame
    ss.append(G + W.ready(b"DEALER") + W.msg([b""]))
    ss.append(G + W.ready(b"REP") + W.msg([b"", b"q"]) + W.msg([b"k" * 300, b""]))
    # frames of 64 KiB and more (beyond every internal buffer size), followed by more frames in the same stream
    ss.append(G + W.ready(b"PUSH") + W.msg([b"k" * 70000, b"s"]) + W.msg([b"t"]))
    ss.append(G + W.ready(b"DEALER") + W.msg([b"a" * 65536]) + W.msg([b"b" * 300, b""]) + W.ready(b"DEALER") + W.msg([b"c"]))
    ss.append(G + W.ready(b"PUB") + W.msg([b"x" * 65535]) + W.msg([b"y"]) + W.msg([b"z" * 131072, b"w" * 65537]) + W.msg([b"v"]))
    ss.append(G + W.ready(b"PUSH") + W.msg([b"m" * 1200000]) + W.msg([b"n" * 900000, b"o"]) + W.msg([b"p"]))
    n = 6 if tier == "quick" else 40
    for _ in range(n):
        s = G + W.ready(rng.choice([b"DEALER", b"ROUTER", b"REP"]), rng.choice([None, b"i", b"id" * 20]))
        for _ in range(rng.randint(1, 4)):
            nf = rng.randint(1, 5)
            fr = [bytes(rng.randrange(256) for _ in range(rng.choice([0, 1, 2, 7, rng.randint(0, 40), rng.choice([255, 256, 300])])))
                  for _ in range(nf)]
            s += W.msg(fr)
            if rng.random() < 0.25:
                s += W.ready(b"DEALER")
        ss.append(s)
    return ss


def chunks_tok(s, cuts):
    cuts = sorted(set(c for c in cuts if 0 < c < len(s)))
    parts, prev = [], 0
    for c in cuts + [len(s)]:
        parts.append(W.tok(s[prev:c]))
        prev = c
    return "|".join(parts)


def cases(tier, rng):
    out = []
    k = 0
    for si, s in enumerate(streams(rng, tier)):
        def add(cuts, eof=False):
            nonlocal k
            out.append("s%d.%d dec %s%s" % (si, k, chunks_tok(s, cuts), " eof" if eof else ""))
            k += 1
        add([])
        add([], eof=True)
        if len(s) > 20000:
            # large streams: reads ending just before / at / just after every frame boundary, pairs of those, fixed-size reads
            from . import scen
            pos, bounds = 64, []
            for fl, body in scen.parse_frames_prefix(s[64:]):
                pos += (9 if fl & 2 else 2) + len(body)
                bounds.append(pos)
            huge = len(s) > 1000000       # (megabyte streams: the extracted model needs seconds per case - fewer of them)
            near = sorted(set(b + d for b in bounds for d in ((-1, 0, 1, 9) if huge else (-9, -1, 0, 1, 2, 3, 9, 10)) if 0 < b + d < len(s)))
            for c in near:
                add([c])
            for _ in range((4 if huge else 20) if tier == "quick" else (20 if huge else 200)):
                add(sorted(rng.sample(near, 2)))
            for size in ((8192, 100000) if huge else (8192, 65536, 16384, 100000)):
                add(list(range(size, len(s), size)))
            for _ in range((3 if huge else 10) if tier == "quick" else (10 if huge else 100)):
                add(rng.sample(range(1, len(s)), rng.randint(1, 6)), eof=rng.random() < 0.2)
            continue
        step = 1 if len(s) <= 400 else max(1, len(s) // 300)
        for c in range(1, len(s), step):
            add([c])
        for c in range(1, len(s), max(1, len(s) // 40)):
            add([c], eof=True)
        if len(s) <= (130 if tier == "quick" else 220):
            for a, b in itertools.combinations(range(1, len(s)), 2):
                add([a, b])
        else:
            for _ in range(150 if tier == "quick" else 1500):
                a, b = sorted(rng.sample(range(1, len(s)), 2))
                add([a, b])
        if len(s) <= 2500:
            add(list(range(1, len(s))))
            add(list(range(1, len(s))), eof=True)
        add(list(range(8192, len(s), 8192)))
        for _ in range(25 if tier == "quick" else 250):
            ncut = rng.randint(1, min(12, len(s) - 1))
            add(rng.sample(range(1, len(s)), ncut), eof=rng.random() < 0.2)
        if tier == "thorough" and si < 30 and len(s) >= 64 + 16:
            for mask in range(1 << 15):
                add([64] + [64 + i + 1 for i in range(15) if mask >> i & 1])
    # hand-over: data in the same segment as the end of the handshake is the first message
    EX = {"PULL": (W.msg([b"first"]), "PUSH", "r=ok:6669727374"), "DEALER": (W.msg([b"first"]), "ROUTER", "r=ok:6669727374"),
          "ROUTER": (W.msg([b"first"]), "DEALER", "r=ok:@a;6669727374"), "SUB": (W.msg([b"first"]), "PUB", "r=ok:6669727374"),
          "REP": (W.msg([b"", b"first"]), "REQ", "r=ok:6669727374"), "XPUB": (W.msg([b"\x01first"]), "SUB", "r=ok:016669727374")}
    for t, (m, pt, _) in sorted(EX.items()):
        base = W.GREETING + W.ready(pt.encode())
        whole = base + m + m
        for cuts in ("", "chunks=64", "chunks=%d" % len(base), "chunks=%d" % (len(base) + 3), "chunks=1,63,%d,2" % (len(base) - 64), "chunks=" + ",".join(["7"] * 30)):
            out.append("v%d sock %s / attach a %s raw=%s %s / recv / recv / recv" % (k, t, pt, W.tok(whole), cuts))
            k += 1
    # PUB reads its subscribers in a task of its own: a subscription arriving in the same segment as the end of the handshake
    # (or split anywhere) counts - the subscriber then gets what it asked for
    base = W.GREETING + W.ready(b"SUB")
    whole = base + b"".join(W.msg([b"\x01T%02d" % i_]) for i_ in range(70)) + W.msg([b"\x01A"]) + W.msg([b"\x01B"])
    for cuts in ("", "chunks=64", "chunks=%d" % len(base), "chunks=%d" % (len(base) + 2), "chunks=1,63,%d,3" % (len(base) - 64),
                 "chunks=" + ",".join(["7"] * 30), "chunks=%d" % (len(whole) - 1), "chunks=%d" % (len(base) + 256), "chunks=%d" % (len(base) + 257)):
        out.append("v%d sock PUB / attach a SUB raw=%s %s / settle / send 4131 / send 4231 / send 4331 / wire a" % (k, W.tok(whole), cuts))
        k += 1
    # REQ reads its connection only after a request has gone out: what arrived with / right after the end of the
    # handshake must still be there, for every segmentation
    base = W.GREETING + W.ready(b"REP")
    whole = base + W.msg([b"", b"first"])
    for cuts in ("", "chunks=64", "chunks=%d" % len(base), "chunks=%d" % (len(base) + 3), "chunks=1,63,%d,2" % (len(base) - 64),
                 "chunks=" + ",".join(["7"] * 30), "chunks=%d" % (len(whole) - 1)):
        out.append("v%d sock REQ / attach a REP raw=%s %s / send 71 / recv" % (k, W.tok(whole), cuts))
        k += 1
    # truncated streams (every prefix of two streams), whole and cut once
    for si, s in enumerate(streams(rng, "quick")[2:4]):
        for n in range(0, len(s)):
            out.append("t%d.%d dec %s eof" % (si, k, chunks_tok(s[:n], [])))
            k += 1
            if n > 2:
                out.append("t%d.%d dec %s eof" % (si, k, chunks_tok(s[:n], [n // 2])))
                k += 1
    return out


def strip(obs):
    return " ".join(t for t in obs.split() if not t.startswith(("buf=", "held=", "depth=", "mem=")))


def norm_impl(o):
    return " ".join(t for t in o.split() if not t.startswith(("depth=", "mem=")))


def norm_model(o):
    return " ".join(t for t in o.split() if not t.startswith("held="))


_whole = {}


def oracle_cases(case_lines, impl):
    oc = []
    seen = set()
    for line in case_lines:
        sp = line.split()
        if sp[1] != "dec":
            continue
        s = b"".join(W.untok(c) for c in sp[2].split("|")) if sp[2] != "." else b""
        if s not in seen:
            seen.add(s)
            oc.append("o%d specitems %s" % (len(seen), W.tok(s) if s else "-"))
            _whole[s] = "o%d" % len(seen)
    return oc


HANDOVER = {"PULL": "r=ok:6669727374", "DEALER": "r=ok:6669727374", "ROUTER": "r=ok:@a;6669727374", "SUB": "r=ok:6669727374",
            "REP": "r=ok:6669727374", "XPUB": "r=ok:016669727374"}


def compare_filter(line):
    # megabyte streams: the extracted model takes ~10 s per case on them; they are read declaratively ONCE (oracle_cases) and
    # every segmentation of the implementation is judged against that reading and against the other segmentations
    import re
    if any(int(n) >= 500000 for n in re.findall(r"r(\d+)\.", line)):
        return False
    return line.split()[1] == "dec"


def judge(line, impl_obs, orc, _cache={}):
    sp = line.split()
    if impl_obs is None:
        return "no observation"
    if impl_obs.startswith(("panic", "abort", "hang")) or "PANICS" in impl_obs:
        return "implementation " + impl_obs[:60]
    if sp[1] == "sock" and sp[2] == "PUB":
        want = "att:a=ok:auto s=ok s=ok s=ok wire:a=" + (W.msg([b"A1"]) + W.msg([b"B1"])).hex()
        if impl_obs != want:
            return "subscriptions arriving with the end of the handshake are not honoured by PUB for some segmentation: %s (expected %s)" % (impl_obs[:160], want)
        return None
    if sp[1] == "sock" and sp[2] == "REQ":
        want = "att:a=ok:auto s=ok r=ok:6669727374"
        if impl_obs != want:
            return "data arriving with the end of the handshake is not delivered to REQ for some segmentation: %s (expected %s)" % (impl_obs[:160], want)
        return None
    if sp[1] == "sock":
        w = HANDOVER[sp[2]]
        want = "att:a=ok:auto %s %s r=pending" % (w, w)
        if impl_obs != want:
            return "data arriving with the end of the handshake is not delivered as the first message(s): %s (expected %s)" % (impl_obs[:160], want)
        return None
    s = b"".join(W.untok(c) for c in sp[2].split("|")) if sp[2] != "." else b""
    eof = "eof" in sp[3:]
    got = strip(impl_obs)
    key = (s, eof)
    # the property itself: every segmentation of the same bytes decodes to the same items
    if key not in _cache:
        _cache[key] = (got, line)
    elif _cache[key][0] != got:
        return "same bytes, different segmentation, different items: %r vs %r (other case: %s)" % (got[:200], _cache[key][0][:200], _cache[key][1][:200])
    want = orc.get(_whole.get(s, ""), None)
    if want is not None:
        # with end-of-stream the same items must have been delivered before the terminal token
        g2 = " ".join(t for t in got.split() if t not in ("pend", "end", "E:Io.UnexpectedEof"))
        w2 = want
        if g2 != w2:
            return "items differ from the declarative reading of the stream: %r vs %r" % (g2[:200], want[:200])
    return None


def nontrivial(line):
    return "|" in line


def classify(line, what):
    return "c02-segmentation"
