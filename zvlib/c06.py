"""C06 - a waiting receiver is always woken, and no peer is starved."""
from . import common as C
from . import fqgen
from . import sockcheck as S
from . import wire as W
from . import scen

PID = "C06"
RULE = ("the real FairQueue with a counting receiver waker: all label schedules of depth 5/6 for 2 streams (events inside the poll window "
        "included) and seeded random schedules for 1-4 streams, each ended by a drain in which the environment fires every owed stream waker "
        "and an executor re-polls the receiver ONLY when its waker was invoked: any item left in a registered stream is a lost wake-up; "
        "socket level (six fair-queue socket types): a second connection under a still-registered identity whose event was already consumed, then a waker-respecting recv while its message arrives; saturated schedules (n streams x m queued items) for the rotation bound n-1; distinct = distinct schedule; non-trivial = the receiver parks at least once")


def cases(tier, rng):
    out = []
    k = 0
    depth = 5 if tier == "quick" else 6
    for seq in fqgen.enumerate_schedules(2, depth):
        out.append("e%d fq / %s / D" % (k, " / ".join(fqgen.concretise(seq))))
        k += 1
    for _ in range(2500 if tier == "quick" else 40000):
        n = rng.randint(1, 4)
        seq = fqgen.random_schedule(rng, n, rng.randint(5, 50), removes=(rng.random() < 0.4))
        out.append("f%d fq / %s / D" % (k, " / ".join(seq)))
        k += 1
    # fairness across an idle period: after a busy phase and a park, one stream queues a backlog and another a single
    # item: that item waits for at most (number of streams - 1) deliveries of others
    for n in (2, 3):
        for busy in (6, 14):
            for backlog in (12, 40):
                labs = ["I%d" % s_ for s_ in range(1, n + 1)]
                for i in range(busy):
                    s_ = 1 + (i % n) if i % 4 else 1
                    labs += ["A%d.%d" % (s_, 1000 + i), "W%d" % s_, "P"]
                labs += ["P", "P"]                       # everything drained: the receiver parks on an empty heap
                labs += ["A2.%d" % (2000 + i) for i in range(backlog)] + ["W2"] + ["A1.7777", "W1"]
                labs += ["P"] * (backlog + 2)
                out.append("h%d fq / %s / D" % (k, " / ".join(labs)))
                k += 1
    # a stream that yields (wakes the waker it is polled with and returns Pending, as tokio's cooperative budgeting does):
    # poll_next must return (Pending, receiver woken) instead of spinning, and the next call delivers
    for n in (1, 2, 3):
        for pos in range(n):
            labs = ["I%d" % s_ for s_ in range(1, n + 1)]
            for s_ in range(1, n + 1):
                labs += ["A%d.%d" % (s_, s_ * 100 + i) for i in range(2)]
            labs += ["P:%d~Y" % pos] + ["P"] * (2 * n + 1)
            out.append("y%d fq / %s / D" % (k, " / ".join(labs)))
            k += 1
            labs2 = ["I%d" % s_ for s_ in range(1, n + 1)] + ["P", "A1.7", "W1", "P:%d~Y" % pos, "P:0~Y", "P", "P"]
            out.append("y%d fq / %s / D" % (k, " / ".join(labs2)))
            k += 1
    # many registered streams (more than any plausible per-call budget) with an item behind them: no call may park before
    # every queued event has been looked at
    for n in (33, 40, 70, 100, 257):
        ins = " / ".join("I%d" % i for i in range(1, n + 1))
        for polls in (1, 2, 3):
            out.append("n%d fq / %s / %s / A%d.1 / D" % (k, ins, " / ".join(["P"] * polls), n))
            k += 1
            out.append("n%d fq / %s / A%d.1 / A%d.2 / %s / D" % (k, ins, n, n // 2, " / ".join(["P"] * polls)))
            k += 1
    # a key that has more than one event queued (it delivered, its event was re-queued, and a new connection under the same
    # identity replaced its stream) followed by other streams with items: one call must not give up before the queue is empty
    for n in (2, 3):
        for reins in (1, 2, 3):
            labs = ["I1", "A1.11", "P"] + ["I1"] * reins + ["I%d" % s_ for s_ in range(2, n + 1)]
            labs += ["A%d.%d" % (s_, s_ * 10 + 1) for s_ in range(2, n + 1)]
            labs += ["P"]
            out.append("u%d fq / %s / D" % (k, " / ".join(labs)))
            k += 1
            out.append("u%d fq / %s / P / D" % (k, " / ".join(labs[:-1])))
            k += 1
    # a stream is removed (peer_disconnected) while the others have items queued / events pending
    for n in (2, 3, 4):
        for victim in range(1, n + 1):
            for when in ("before", "after-poll", "in-window"):
                labs = ["I%d" % s for s in range(1, n + 1)]
                for s_ in range(1, n + 1):
                    labs += ["A%d.%d" % (s_, s_ * 100 + i) for i in range(3)]
                if when == "before":
                    labs += ["R%d" % victim]
                elif when == "after-poll":
                    labs += ["P", "R%d" % victim]
                else:
                    labs += ["P:0~R%d" % victim]
                labs += ["P"] * (3 * n + 2)
                out.append("v%d fq / %s / D" % (k, " / ".join(labs)))
                k += 1
    # saturated: n streams, m items each queued up front (some arriving inside the first poll's window)
    for n in range(1, 6):
        for m in (1, 2, 5, 40 if tier == "quick" else 400):
            for variant in range(3):
                labs = []
                order = list(range(1, n + 1))
                rng.shuffle(order)
                for s in order:
                    labs.append("I%d" % s)
                arr = []
                for s in order:
                    for i in range(m if variant != 1 else m * (s if s < 3 else 1)):
                        arr.append("A%d.%d" % (s, s * 1000 + i))
                if variant == 2:
                    rng.shuffle(arr)
                labs += arr
                total = len(arr)
                labs += ["P"] * (total + 1)
                out.append("g%d fq / %s / D" % (k, " / ".join(labs)))
                k += 1
    # socket level: a peer that re-connects under an identity whose previous connection is still registered
    # (its ready event already consumed) must be polled and its arrival must wake a parked recv
    for t in ("PULL", "SUB", "DEALER", "ROUTER", "REP", "XPUB"):
        one, two = ([b"", b"one"], [b"", b"two"]) if t == "REP" else ([b"\x01one"], [b"\x01two"]) if t == "XPUB" else ([b"one"], [b"two"])
        for idl in (1, 16, 255):
            ident = W.tok(b"J" * idl)
            for polls in (1, 2):
                ops = ["attach a %s id=%s" % (scen.PEER[t], ident), "feed a " + W.tok(W.msg(one)), "recv", "recvp %d" % polls,
                       "attach b %s id=%s" % (scen.PEER[t], ident), "recvw b " + W.tok(W.msg(two))]
                out.append("s%d sock %s / %s" % (k, t, " / ".join(ops)))
                k += 1
    # real runtime, real TCP: a message of several MiB is read with more I/O operations than one turn's cooperative
    # budget allows; recv (awaited in the root future of a multi-thread runtime) must still return it
    for t in ("PULL", "DEALER", "ROUTER", "REP", "XPUB"):
        for size in ((1 << 20, 5 << 20) if tier == "quick" else (1 << 20, 3 << 20, 5 << 20, 17 << 20)):
            out.append("x%d rt %s / bind tcp4 / conn 0 / bigxchg 0 %d" % (k, t, size))
            k += 1
    # a parked recv is woken by, and returns, a message that is complete although its last frame is empty
    for t in ("PULL", "SUB", "DEALER", "ROUTER", "REP", "XPUB"):
        for m in ([b"job", b""], [b""], [b"a", b"", b""]):
            mm = ([b""] + m) if t == "REP" else ([b"\x01t"] + m[1:]) if t == "XPUB" else m
            for cut in (0, 1, len(W.msg(mm)) - 1):
                b = W.msg(mm)
                ops = ["attach a " + scen.PEER[t]]
                if cut:
                    ops.append("feed a " + W.tok(b[:cut]))
                ops += ["recvw a " + W.tok(b[cut:])]
                out.append("t%d sock %s / %s" % (k, t, " / ".join(ops)))
                k += 1
    return out


def compare_filter(line):
    return line.split()[1] == "fq"       # the socket model assumes distinct identities


def judge(line, obs, orc):
    if S.bad_obs(obs):
        return "implementation " + str(obs)[:80]
    if line.split()[1] == "rt":
        if not obs.endswith("=ok") or "X#0=ok" not in obs:
            return "a large message over real TCP was not returned by recv in the root future of the runtime: " + obs[-80:]
        return None
    if line.split()[1] == "sock":
        last = obs.split()[-1]
        if "lost-wakeup" in last:
            return "lost wake-up: a peer re-connected under a still-registered identity, its message arrived, the parked recv was never woken"
        if line.split()[0].startswith("t"):
            if not last.startswith("r=ok:"):
                return "a complete message (last frame empty) arrived while recv was parked and was not returned: " + last[:80]
            return None
        if not last.startswith("r=ok:") or not last.endswith("74776f"):
            return "the message of the re-connected peer was not delivered: " + last[:80]
        return None
    labels = [x.strip() for x in line.split(" / ")[1:]]
    removed, inserted = set(), set()
    for lab in labels:
        for p in (lab[lab.index("~") + 1:].split("~") if lab.startswith("P:") and "~" in lab else [lab]):
            if p.startswith("R"):
                removed.add(int(p[1:]))
            if p.startswith("I"):
                inserted.add(int(p[1:]))
    toks = obs.split()
    if obs.startswith("hang"):
        return "poll_next does not return (spins) when a stream yields"
    if any("spin" in t for t in toks):
        return "poll_next spins"
    if line.split()[0].startswith("h"):
        n = len(inserted)
        # deliveries after the last burst was queued: position of 1.7777
        deliv = [t.split("@")[0] for t in toks if t.startswith("R") and "." in t.split("@")[0]]
        tail = deliv[deliv.index(next(d for d in deliv if d.startswith("R2.2000"))) if any(d.startswith("R2.2000") for d in deliv) else 0:]
        # count only what came after the busy phase
        after = [d for d in deliv if d.startswith("R2.2") or d == "R1.7777"]
        if "R1.7777" not in after:
            return "the single item of stream 1 was never delivered"
        pos = after.index("R1.7777")
        if pos > n - 1:
            return "stream 1 waited %d deliveries of others with %d streams (after an idle period the rotation must not depend on the others' backlog)" % (pos, n)
    # u-cases: items are waiting on streams whose (insert) events are queued, no wake-up is needed to find them: the poll
    # after the arrivals must hand one over - returning Pending there parks the receiver on a non-empty ready queue
    if line.split()[0].startswith("u"):
        last_arrival = max(i_ for i_, lab in enumerate(labels) if lab.startswith("A"))
        tk = toks[last_arrival + 1].split("@")[0]
        if not tk.startswith("R"):
            return ("poll_next returned %s although an item was waiting on a stream whose event is queued (a key with more than one "
                    "queued event came first): the receiver parks on a non-empty ready queue and nothing will wake it" % (tk or "nothing"))
    left = toks[-1]
    if left != "left=-":
        for kv in left[5:].split(","):
            kk, n = kv.split(":")
            if int(kk) in inserted and int(kk) not in removed:
                return "lost wake-up: %s item(s) remain on registered stream %s although every owed waker fired and the receiver is re-polled whenever woken" % (n, kk)
    if line.split()[0].startswith("g"):
        # rotation: while every stream still has items queued, any n consecutive deliveries hit n streams
        n = len(inserted)
        deliv = []
        for t in toks:
            b = t.split("@")[0]
            for it in (b[2:-1].split(",") if b.startswith("D[") else [b]):
                if it.startswith("R") and "." in it:
                    deliv.append(int(it[1:].split(".")[0]))
        remaining = {}
        for lab in labels:
            if lab.startswith("A"):
                kk = int(lab[1:].split(".")[0])
                remaining[kk] = remaining.get(kk, 0) + 1
        last_seen = {}
        for i, kk in enumerate(deliv):
            # streams that still have items at this point and were not served within the last n-1 deliveries
            for s in inserted:
                if remaining.get(s, 0) > 0 and s != kk:
                    gap = i - last_seen.get(s, -1)
                    if gap > n - 1 + 0 and last_seen.get(s, -1) >= 0 and gap > n:
                        return "stream %d waited %d deliveries of others with %d streams" % (s, gap - 1, n)
            last_seen[kk] = i
            remaining[kk] -= 1
    return None


def nontrivial(line):
    return True


def classify(line, what):
    return "c06-" + ("lost-wakeup" if "lost" in what else "fairness" if "waited" in what else "other")
