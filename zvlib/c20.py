"""C20 - a stalled or malicious handshake never blocks other connections."""
from . import common as C
from . import wire as W

PID = "C20"
PARALLEL = True
EXHAUSTIVE = {"quick": False, "thorough": True}
RULE = ("real sockets bound on real TCP and IPC: raw clients that stop / close / switch to garbage at byte offsets 0..|greeting+READY| of their handshake "
        "(thorough: every offset; quick: every 7th + boundaries), 1-8 such clients at once and bursts of 20/48 (thorough: up to 130), for each bound socket type; a well-behaved client connects "
        "before, during and after, exchanges a message; the monitor's events are compared with the handshake model's verdict for each misbehaving client; "
        "distinct = distinct scenario; non-trivial = at least one misbehaving client is still pending when the well-behaved one connects")
TYPES = ["PULL", "REP", "ROUTER", "DEALER", "PUB", "XPUB", "SUB", "PUSH", "REQ"]
PEER = {"PUB": "SUB", "SUB": "PUB", "XPUB": "SUB", "REQ": "REP", "REP": "REQ", "DEALER": "ROUTER", "ROUTER": "DEALER", "PUSH": "PULL", "PULL": "PUSH"}


def hs_bytes(t):
    return W.GREETING + W.ready(PEER[t].encode())


def cases(tier, rng):
    out = []
    k = 0
    for t in TYPES:
        n = len(hs_bytes(t))
        offs = list(range(0, n + 1)) if tier == "thorough" else sorted(set(list(range(0, n + 1, 7)) + [0, 1, 9, 10, 63, 64, 65, 66, n - 1, n]))
        for transport in ("tcp4", "ipc"):
            for mode in ("stop", "close", "garbage"):
                for off in offs:
                    if tier == "quick" and transport == "ipc" and off % 3:
                        continue
                    if off >= n and mode != "close":
                        continue      # a complete handshake makes it an ordinary (silent) peer: not this property's subject
                    ops = ["bind " + transport, "conn 0", "staller 0 off=%d mode=%s" % (off, mode), "conn 0", "xchg 0", "xchg 2", "monitor", "binds"]
                    out.append("s%d rt %s mon / %s" % (k, t, " / ".join(ops)))
                    k += 1
        for _ in range(4 if tier == "quick" else 40):
            m = rng.randint(2, 8)
            ops = ["bind tcp4", "conn 0"]
            for _ in range(m):
                ops.append("staller 0 off=%d mode=%s" % (rng.randint(0, n - 1), rng.choice(["stop", "close", "garbage"])))
            ops += ["conn 0", "xchg 0", "xchg %d" % (m + 1), "monitor"]
            out.append("m%d rt %s mon / %s" % (k, t, " / ".join(ops)))
            k += 1
        # a handshake that must be refused (incompatible Socket-Type) and claims the identity of an established peer:
        # the peer set stays as it was, the established peer keeps exchanging messages
        imp = "PULL" if t in ("SUB", "XPUB") else "PUB"
        for transport in ("tcp4", "ipc"):
            for ident in ("616c696365", "00" + "41" * 8):
                ops = ["bind " + transport, "conn 0 id=" + ident, "xchg 0", "impostor 0 id=%s as=%s" % (ident, imp), "xchg 0",
                       "impostor 0 id=%s as=%s" % (ident, imp), "conn 0", "xchg 0", "xchg 3", "monitor"]
                out.append("i%d rt %s mon / %s" % (k, t, " / ".join(ops)))
                k += 1
        # connections that are reset (RST) before the listener has accepted them: each is an accept failure of its own, the
        # listener keeps accepting (single-threaded runtime, so that the resets precede the accept loop's next turn)
        for n_r in (1, 3, 8):
            ops = ["bind tcp4", "conn 0", "rstburst 0 n=%d" % n_r, "conn 0", "xchg 0", "xchg 1", "rstburst 0 n=2", "conn 0", "xchg 2", "monitor"]
            out.append("r%d rt %s mon ct / %s" % (k, t, " / ".join(ops)))
            k += 1
        # a monitor installed AFTER bind sees the events of that endpoint all the same
        for transport in ("tcp4", "ipc"):
            ops = ["bind " + transport, "conn 0", "staller 0 off=20 mode=garbage", "staller 0 off=70 mode=close", "conn 0", "xchg 0", "xchg 3", "monitor"]
            out.append("l%d rt %s monlate / %s" % (k, t, " / ".join(ops)))
            k += 1
        # many simultaneous misbehaving clients (k is not bounded by the property: any fixed cap on pending handshakes is a violation)
        for transport in (("tcp4", "ipc") if tier == "thorough" else (rng.choice(["tcp4", "ipc"]),)):
            for m in ((17, 33, 64, 130) if tier == "thorough" else (20, 70)):
                ops = ["bind " + transport, "conn 0"]
                for _ in range(m):
                    ops.append("staller 0 off=%d mode=%s" % (rng.randint(0, n - 1), rng.choice(["stop", "stop", "stop", "garbage", "close"])))
                ops += ["conn 0", "xchg 0", "xchg %d" % (m + 1), "monitor"]
                out.append("g%d rt %s mon / %s" % (k, t, " / ".join(ops)))
                k += 1
    # a long history of FAILED handshakes on one endpoint (more than a hundred, one after the other) leaves no trace: the next
    # well-behaved client is admitted and served
    for t in ("PULL", "REP", "ROUTER"):
        for tr in ("tcp4", "ipc"):
            for mode, off in (("close", 0), ("close", 64), ("garbage", 0), ("garbage", 20)):
                ops = ["bind " + tr, "conn 0"] + ["staller 0 off=%d mode=%s" % (off, mode)] * 110 + ["conn 0", "xchg 0", "xchg 111", "monitor"]
                out.append("f%d rt %s mon / %s" % (k, t, " / ".join(ops)))
                k += 1
    # a peer that completed its handshake and then stops READING, while the socket has megabytes of subscriptions to replay to
    # it: the next peer is set up and served all the same
    for tr in ("tcp4", "ipc"):
        for n, size in ((80, 65536), (2000, 3000)):
            out.append("b%d rt SUB / bind %s / subbig %d %d / conn 0 / conn 0 / drain 1 / xchg 1 / conn 0 / drain 2 / xchg 2" % (k, tr, n, size))
            k += 1
    # a client stalled in its handshake does not keep the OWNER from going on: unbind of that endpoint and close of the
    # socket return, and the well-behaved peer on the other endpoint is served in between
    for t in ("PULL", "REP", "ROUTER", "PUB"):
        for tr in ("tcp4", "ipc"):
            for off in (0, 10, 64, 70):
                ops = ["bind " + tr, "bind " + tr, "conn 1", "staller 0 off=%d mode=stop" % off, "staller 0 off=0 mode=stop", "unbind 0", "xchg 0", "close", "monitor"]
                out.append("u%d rt %s mon / %s" % (k, t, " / ".join(ops)))
                k += 1
    return out


def compare_filter(line):
    return False


def judge(line, obs, orc):
    if obs is None or obs.startswith(("panic", "abort", "hang")) or "PANICS" in obs:
        return "implementation " + str(obs)[:80]
    t = line.split()[2]
    ops = [p.split() for p in line.split(" / ")[1:]]
    toks = obs.split()
    if line.startswith("b"):
        for op, tk in zip(ops, toks):
            if op[0] in ("bind", "subbig", "conn", "xchg") and not (tk.endswith("=ok") or tk.startswith("b#")):
                return ("next to a peer that stopped reading while its subscriptions were being replayed, another peer could not be "
                        "set up / served: %s -> %s" % (" ".join(op), tk))
        return None
    if len(toks) != len(ops):
        return "observation/ops mismatch: " + obs[:100]
    stallers = []
    for op, tk in zip(ops, toks):
        if op[0] == "bind" and not tk.startswith("b#"):
            return "bind failed: " + tk
        if op[0] == "conn" and not tk.endswith("=ok"):
            return "a well-behaved client could not complete its handshake next to misbehaving ones: %s" % tk
        if op[0] == "xchg" and not tk.endswith("=ok"):
            return "message exchange with a well-behaved peer failed next to misbehaving ones: %s" % tk
        if op[0] == "staller":
            stallers.append((int(op[2][4:]), op[3][5:]))
        if op[0] == "unbind" and tk != "u=ok":
            return "unbind() of an endpoint with a client stalled in its handshake did not return normally: %s" % tk
        if op[0] == "close" and tk != "close=0":
            return "close() of a socket with clients stalled in their handshake did not return normally: %s" % tk
    # monitor: one Accepted per well-behaved client, one AcceptFailed per misbehaving client whose bytes the
    # handshake model refuses (a client that merely stalls is still pending and reports nothing)
    hb = hs_bytes(t)
    mcases = []
    for i, (off, mode) in enumerate(stallers):
        b = hb[:off] + (bytes([0x13]) * 97 if mode == "garbage" else b"")
        mcases.append("v%d admit %s %s%s" % (i, t, W.tok(b) if b else ".", " eof" if mode == "close" else ""))
    verdicts = C.run_model(mcases, "C20.verdicts") if mcases else {}
    nfail = sum(1 for v in verdicts.values() if v.startswith("err")) + sum(1 for op in ops if op[0] == "impostor")
    nacc = sum(1 for v in verdicts.values() if v.startswith("ok"))
    # a client that completes its handshake and closes at once may see its registration succeed or
    # fail on the library's own writes (outcome of a race with the OS): both are fine
    either = sum(1 for i, (off, mode) in enumerate(stallers) if mode == "close" and verdicts.get("v%d" % i, "").startswith("ok"))
    good = sum(1 for op in ops if op[0] == "conn")
    mon = [tk for op, tk in zip(ops, toks) if op[0] == "monitor"][0][4:]
    names = [] if mon == "-" else mon.split(",")
    maybe_fail = sum(int(op[2][2:]) for op in ops if op[0] == "rstburst")
    if not (nfail <= names.count("AcceptFailed") <= nfail + either + maybe_fail):
        return "monitor reports %d accept failures, the handshake model refuses %d of the misbehaving clients (%s)" % (names.count("AcceptFailed"), nfail, mon)
    if not (good + nacc - either <= names.count("Accepted") <= good + nacc):
        return "monitor reports %d accepted peers, expected %d (%s)" % (names.count("Accepted"), good + nacc, mon)
    return None


def nontrivial(line):
    return "mode=stop" in line or "mode=garbage" in line


def classify(line, what):
    return "c20-" + ("monitor" if "monitor" in what else "blocked")
