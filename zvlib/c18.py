"""C18 - bind/unbind manage independent listeners with exact endpoint bookkeeping."""
from . import common as C

PID = "C18"
PARALLEL = True
RULE = ("seeded operation sequences up to length 12 over {bind tcp 127.0.0.1:0 / [::1]:0 / localhost:0 / ipc path, bind to an endpoint already bound, "
        "bind of malformed text, the same port number on another local address, unbind bound, unbind unknown (also: never-bound host with a bound port number), raw client connects in and handshakes, message exchanged on an earlier connection, plain "
        "connect probe of every endpoint ever bound} on real sockets over the real OS; the OS answers are recorded and replayed into the extracted "
        "bind-table model (oracle replay); distinct = distinct sequence; non-trivial = at least one unbind after >= 2 binds")
TYPES = ["PULL", "REP", "ROUTER", "DEALER", "XPUB", "SUB"]   # receiving types: a message identifies the connection it came over


FIXED = [
    "bind tcp4 / bindsame 0 127.0.0.2 / unbind 1 / unbind 1 / binds / probe 0 / probe 1 / conn 0 / xchg 0",
    "bind tcp4 / unbindalias 0 127.0.0.2 / binds / probe 0 / conn 0 / xchg 0",
    "bind tcp4 / conn 0 / unbindalias 0 [::1] / xchg 0 / probe 0 / unbind 0 / binds / probe 0",
    "bind tcp4 / bindsame 0 [::1] / unbindalias 0 127.0.0.2 / unbind 0 / unbind 0 / binds / probe 0 / probe 1 / conn 1 / xchg 0",
    "bind tcp6 / unbindalias 0 127.0.0.1 / binds / probe 0 / conn 0 / xchg 0",
    "bind tcp4 / bind tcp4 / unbindalias 0 127.0.0.2 / unbindalias 1 127.0.0.2 / unbindx / binds / probe 0 / probe 1",
    # a client that never finishes its handshake does not stop the endpoint from accepting others, nor unbind from returning
    "bind tcp4 / staller 0 off=0 mode=stop / conn 0 / xchg 1 / staller 0 off=70 mode=stop / conn 0 / xchg 3 / unbind 0 / binds / probe 0",
    "bind ipc / staller 0 off=0 mode=stop / conn 0 / xchg 1 / unbind 0 / binds / probe 0",
    "bind tcp4 / bind tcp6 / staller 0 off=10 mode=stop / staller 1 off=64 mode=stop / conn 0 / conn 1 / unbind 0 / xchg 3 / binds / probe 0 / probe 1",
    # the process runs out of descriptors for a moment while a client connects (accept fails): the endpoint is still bound and
    # goes on accepting afterwards
    "bind tcp4 / conn 0 / fdsqueeze 0 / conn 0 / xchg 1 / probe 0 / unbind 0 / binds / probe 0",
    "bind ipc / conn 0 / fdsqueeze 0 / fdsqueeze 0 / conn 0 / xchg 1 / probe 0 / unbind 0 / binds / probe 0",
    # "any number of connections until it is unbound": seventy clients that connected and went silent, then a well-behaved one
    "bind tcp4 / " + " / ".join(["staller 0 off=0 mode=stop"] * 70) + " / conn 0 / xchg 70 / unbind 0 / binds / probe 0",
    "bind ipc / " + " / ".join(["staller 0 off=64 mode=stop"] * 70) + " / conn 0 / xchg 70 / unbind 0 / binds / probe 0",
]


def cases(tier, rng):
    out = []
    for i, f in enumerate(FIXED):
        for t in (TYPES if tier == "thorough" else [TYPES[i % len(TYPES)], TYPES[(i + 3) % len(TYPES)]]):
            out.append("a%d%s rt %s / %s" % (i, t, t, f))
    for k in range(40 if tier == "quick" else 400):
        t = rng.choice(TYPES)
        ops = []
        nb = 0
        bound = []          # indices currently believed bound
        conns = []          # (conn index, bind index)
        nc = 0
        kinds = {}
        aliased = set()
        for _ in range(rng.randint(4, 12)):
            r = rng.random()
            tcpb = [b for b in bound if kinds.get(b) in ("tcp4", "tcp6")]
            if r < 0.12 and tcpb:
                # same port number on another local address: an independent endpoint
                b = rng.choice(tcpb)
                h = rng.choice(["127.0.0.2", "[::1]"] if kinds[b] == "tcp4" else ["127.0.0.1", "127.0.0.2"])
                if (b, h) not in aliased and rng.random() < 0.5:
                    aliased.add((b, h))
                    ops.append("bindsame %d %s" % (b, h))
                    kinds[nb] = "alias"
                    bound.append(nb)
                    nb += 1
                elif (b, h) not in aliased:
                    ops.append("unbindalias %d %s" % (b, h))
                continue
            if r < 0.3 or nb == 0:
                kind = rng.choice(["tcp4", "tcp6", "local", "ipc", "tcp4"])
                ops.append("bind " + kind)
                kinds[nb] = kind
                bound.append(nb)
                nb += 1
            elif r < 0.38 and bound:
                ops.append("binddup %d" % rng.choice(bound))
            elif r < 0.44:
                ops.append("bindbad " + rng.choice([b"tcp://:1", b"udp://a:1", b"tcp://a:99999", b"ipc://", b"tcp://256.256.256.256:1"]).hex())
            elif r < 0.6 and bound:
                b = rng.choice(bound)
                ops.append("unbind %d" % b)
                bound.remove(b)
            elif r < 0.66:
                ops.append("unbindx")
            elif r < 0.7 and nb > len(bound):
                gone = [i for i in range(nb) if i not in bound]
                ops.append("unbind %d" % rng.choice(gone))
            elif r < 0.85 and bound:
                b = rng.choice(bound)
                ops.append("conn %d" % b)
                conns.append((nc, b))
                nc += 1
            elif conns:
                ops.append("xchg %d" % rng.choice(conns)[0])
        ops.append("binds")
        ops += ["probe %d" % i for i in range(nb)]
        for (j, b) in conns[:3]:
            ops.append("xchg %d" % j)
        out.append("b%d rt %s / %s" % (k, t, " / ".join(ops)))
    return out


def replay(line, obs):
    """oracle replay: the OS's answers as observed -> bind-table model ops; and the expected observations"""
    ops = [p.split() for p in line.split(" / ")[1:]]
    toks = obs.split()
    mops = []
    exp = []
    nb = 0
    i = 0
    alive = {}
    for op in ops:
        if op[0] in ("bind", "binddup", "bindbad", "bindsame"):
            tk = toks[i]
            i += 1
            if tk.startswith("b#"):
                mops.append("b+%d" % nb)
                nb += 1
            elif op[0] == "bindbad" and tk.startswith("b=err:Endpoint"):
                mops.append("bx")
            else:
                mops.append("b-")
        elif op[0] == "unbind":
            mops.append("u%s" % op[1])
            i += 1
        elif op[0] in ("unbindx", "unbindalias"):
            mops.append("ux")
            i += 1
        elif op[0] in ("conn", "xchg", "binds", "probe", "staller", "fdsqueeze"):
            i += 1
    return mops


def compare_filter(line):
    return False


def judge(line, obs, orc):
    if obs is None or obs.startswith(("panic", "abort", "hang")) or "PANICS" in obs or "u=hang" in obs or "close=hang" in obs:
        return "implementation " + str(obs)[:80]
    ops = [p.split() for p in line.split(" / ")[1:]]
    toks = obs.split()
    if len(toks) != len(ops):
        return "observation/ops mismatch: " + obs[:100]
    mops = replay(line, obs)
    model = C.run_model(["m bindtable " + " ".join(mops)], "C18.replay").get("m", "")
    mt = model.split()
    mres = mt[:-2]
    table = set(int(x) for x in mt[-2][6:].split(",") if x not in ("-", ""))
    # walk again, comparing each result with the model's and tracking the bind set for the probes
    cur = set()
    mi = 0
    nb = 0
    conn_bind = {}
    nc = 0
    for op, tk in zip(ops, toks):
        if op[0] in ("bind", "binddup", "bindbad", "bindsame"):
            want = mres[mi]
            mi += 1
            if tk.startswith("b#"):
                if ":port>0:" not in tk or not tk.endswith("rt=ok"):
                    return "bind returned an endpoint that is not concrete / not re-parsable: " + tk
                cur.add(nb)
                nb += 1
            elif op[0] in ("bind", "bindsame"):
                return "bind to a free endpoint failed: " + tk
            elif op[0] == "binddup" and not tk.startswith("b=err:Network"):
                return "binding an endpoint that is already bound: " + tk
        elif op[0] in ("unbind", "unbindx", "unbindalias"):
            want = mres[mi]
            mi += 1
            got = "unbound" if tk == "u=ok" else "nosuch" if tk == "u=err:NoSuchBind" else tk
            if got != want:
                return "unbind result %s, bind-table model says %s" % (tk, want)
            if op[0] == "unbind" and got == "unbound":
                cur.discard(int(op[1]))
        elif op[0] == "staller":
            nc += 1
        elif op[0] == "conn":
            b = int(op[1])
            conn_bind[nc] = b
            if (b in cur) != (tk == "c#%d=ok" % nc):
                return "connect to %s endpoint #%d: %s" % ("a bound" if b in cur else "an unbound", b, tk)
            nc += 1
        elif op[0] == "xchg":
            j = int(op[1])
            if not tk.endswith("=ok"):
                return "message exchange on an established connection failed (after %s): %s" % (sorted(cur), tk)
        elif op[0] == "binds":
            want = ",".join("#%d" % x for x in sorted(cur)) or "-"
            if tk != "binds=" + want:
                return "bind set is %s, endpoints listened on are %s" % (tk, want)
            if cur != table:
                return "bind-table model disagrees with the replayed history: %s vs %s" % (sorted(table), sorted(cur))
        elif op[0] == "probe":
            b = int(op[1])
            if (b in cur) != tk.endswith("=accepted"):
                return "endpoint #%d is %s but a fresh connect was %s" % (b, "bound" if b in cur else "unbound", tk)
    return None


def nontrivial(line):
    return "unbind" in line and line.count("bind ") >= 2


def classify(line, what):
    return "c18-bookkeeping"
