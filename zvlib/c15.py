"""C15 - proxy() forwards every message verbatim in both directions."""
from . import common as C
from . import wire as W
from . import sockcheck as S
from .c09 import scen_parse
from . import chaincases

PID = "C15"
RULE = ("the real proxy() spawned between real ROUTER/DEALER (and DEALER/DEALER, ROUTER/ROUTER) sockets with 1-3 scripted REQ-like clients and 1-3 "
        "scripted REP-like workers on in-memory connections, optionally a PUSH capture socket; payload shapes from the C07 grid; arrivals on both sides "
        "queued before the proxy runs (both branches ready in the same poll) or interleaved; segmented feeds; observation = bytes on every connection "
        "and on the capture connection; plus the real chain on the real runtime (1-4 real REQ clients with set identities, real proxy(ROUTER, DEALER[, capture]), 1-3 real REP workers over TCP/IPC, random request/recv schedules with out-of-turn calls; every client must get 07 ++ its own request back); exactly-once as multisets, order per (sender, receiver) pair and per sender on the capture connection; distinct = distinct scenario; non-trivial = traffic in both directions or >= 2 peers on a side")


def payload(rng, tag):
    shapes = [[tag], [tag, b""], [b"", tag, b"x" * 255], [tag, b"y" * 256, b""], [tag + b"z" * 300]]
    return rng.choice(shapes)


def cases(tier, rng):
    out = []
    k = 0
    for _ in range(300 if tier == "quick" else 5000):
        pair = rng.choice([("ROUTER", "DEALER")] * 3 + [("DEALER", "DEALER")])
        cap = rng.random() < 0.5
        nc, nw = rng.randint(1, 3), rng.randint(1, 3)
        clients = "abc"[:nc]
        workers = "xyz"[:nw]
        ops = []
        cid = {c: ("C" + c).encode() * rng.choice([1, 1, 8]) for c in clients}
        wid = {w: ("W" + w).encode() for w in workers}
        for c in clients:
            ops.append("fattach %s %s id=%s" % (c, "REQ" if pair[0] == "ROUTER" else "DEALER", W.tok(cid[c])))
        for w in workers:
            ops.append("battach %s %s id=%s" % (w, "REP" if pair[1] == "DEALER" else "DEALER", W.tok(wid[w])))
        seq = {x: 0 for x in clients + workers}
        for _ in range(rng.randint(2, 14)):
            r = rng.random()
            if r < 0.45:
                c = rng.choice(clients)
                p = payload(rng, ("%s%d" % (c, seq[c])).encode())
                seq[c] += 1
                b = W.msg([b""] + p)
                if rng.random() < 0.25:
                    cut = rng.randint(1, len(b) - 1)
                    ops.append("ffeed %s %s" % (c, W.tok(b[:cut])))
                    ops.append("ffeed %s %s" % (c, W.tok(b[cut:])))
                else:
                    ops.append("ffeed %s %s" % (c, W.tok(b)))
            elif r < 0.8:
                w = rng.choice(workers)
                c = rng.choice(clients)
                p = payload(rng, ("%s%d" % (w, seq[w])).encode())
                seq[w] += 1
                if pair[0] == "ROUTER":
                    m = [cid[c], b""] + p         # reply envelope: the client's identity, delimiter
                else:
                    m = [b""] + p
                if pair[1] == "ROUTER":
                    pass
                ops.append("bfeed %s %s" % (w, W.tok(W.msg(m))))
            else:
                ops.append("settle")
        ops.append("settle")
        ops += ["fwire " + c for c in clients] + ["bwire " + w for w in workers]
        if cap:
            ops.append("cwire")
        ops.append("status")
        out.append("p%d proxy %s %s%s%s / %s" % (k, pair[0], pair[1], " cap" if cap else "", " prepoll" if rng.random() < 0.3 else "", " / ".join(ops)))
        k += 1
    # a misbehaving peer on one side (undecodable frame, connection cut inside a frame) does not end the proxy: the other
    # peers' traffic keeps being forwarded
    for junk, cut in ((W.tok(W.frame(bytes([4]) + b"PING", cmd=True)), False), ("0009aabb", True), ("05ffffffffffffffffff", False)):
        ops = ["fattach a REQ id=4361", "fattach z REQ id=437a", "battach x REP id=5778",
               "ffeed a " + W.tok(W.msg([b"", b"q0"])), "settle", "ffeed z " + junk] + (["feof z"] if cut else []) + ["settle",
               "ffeed a " + W.tok(W.msg([b"", b"q1"])), "settle", "bfeed x " + W.tok(W.msg([b"Ca", b"", b"r0"])), "settle",
               "fwire a", "bwire x", "status"]
        out.append("p%d proxy ROUTER DEALER / %s" % (k, " / ".join(ops)))
        k += 1
    # more than a MiB in each direction with both sides ready in the same polls
    for pair in (("ROUTER", "DEALER"), ("DEALER", "DEALER")):
        nmsg, size = 20, 60000
        ops = ["fattach a %s id=4361" % ("REQ" if pair[0] == "ROUTER" else "DEALER"), "battach x %s id=5778" % ("REP" if pair[1] == "DEALER" else "DEALER")]
        for i in range(nmsg):
            fm = [b"", b"q%02d" % i + b"y" * size]
            bm = ([b"Ca", b""] if pair[0] == "ROUTER" else [b""]) + [b"r%02d" % i + b"z" * size]
            ops += ["ffeed a " + W.tok(W.msg(fm)), "bfeed x " + W.tok(W.msg(bm))]
            if i % 5 == 4:
                ops.append("settle")
        ops += ["settle", "settle", "fwire a", "bwire x", "status"]
        out.append("p%d proxy %s %s / %s" % (k, pair[0], pair[1], " / ".join(ops)))
        k += 1
    # back-pressure on a connection the proxy forwards to (writer answers Pending / takes a few bytes per call): every
    # forwarded message still arrives whole
    for plan in ("p", "p,p,w1", "w1,p,w2,p", "w3,p,p,p,w1,p"):
        for size in (1, 300, 70000):
            ops = ["fattach a REQ id=4361", "battach x REP id=5778", "fwplan a " + plan, "bwplan x " + plan,
                   "ffeed a " + W.tok(W.msg([b"", b"q0", b"y" * size])), "settle",
                   "bfeed x " + W.tok(W.msg([b"Ca", b"", b"r0", b"z" * size])), "settle", "settle",
                   "fwire a", "bwire x", "status"]
            out.append("p%d proxy ROUTER DEALER / %s" % (k, " / ".join(ops)))
            k += 1
    # a client that shuts down its sending direction after a request (and keeps reading) still gets the reply, and the proxy
    # keeps serving the others
    for size in (5, 300):
        ops = ["fattach a REQ id=4361", "fattach z REQ id=437a", "battach x REP id=5778",
               "ffeed a " + W.tok(W.msg([b"", b"q0", b"y" * size])), "feof a", "settle", "settle",
               "bfeed x " + W.tok(W.msg([b"Ca", b"", b"r0"])), "settle",
               "ffeed z " + W.tok(W.msg([b"", b"q1"])), "settle", "bfeed x " + W.tok(W.msg([b"Cz", b"", b"r1"])), "settle",
               "fwire a", "fwire z", "bwire x", "status"]
        out.append("p%d proxy ROUTER DEALER / %s" % (k, " / ".join(ops)))
        k += 1
    # back-pressure on the CAPTURE connection (transient, and standing while more than the write mark piles up, then released):
    # the capture socket still gets a copy of every forwarded message
    for pair, fpt, bpt in ((("DEALER", "DEALER"), "DEALER", "DEALER"), (("ROUTER", "DEALER"), "REQ", "REP")):
        for how in ("cwplan p", "cwplan p,w1,p,p,w3", "cwmode stall"):
            for size in (300, 70000):
                ops = ["fattach a %s id=4361" % fpt, "battach x %s id=5778" % bpt, how]
                for i in range(5):
                    ops += ["ffeed a " + W.tok(W.msg([b"", b"q%d" % i, b"y" * size])), "settle"]
                ops += ["cwmode all", "ffeed a " + W.tok(W.msg([b"", b"last"])), "settle", "settle", "bwire x", "cwire", "status"]
                out.append("p%d proxy %s %s cap / %s" % (k, pair[0], pair[1], " / ".join(ops)))
                k += 1
    # the real REQ - ROUTER/DEALER proxy - REP chain on the real runtime (second sentence of the property)
    out += chaincases.cases(tier, rng, k)
    return out


def model_cases(case_lines):
    # the model's writers accept everything at once: back-pressure plans exist on the implementation side only
    import re
    # a client that comes back under its identity is the same client to the chain model (connections are FIFO queues per client)
    return [re.sub(r" / cw(mode|plan) \S+", "", re.sub(r" / reconn \d+", "", re.sub(r" / [fb]wplan \S+ \S+", "", l))) for l in case_lines]


def canon(obs, line=None):
    if obs is None:
        return obs
    toks = []
    for tk in obs.split():
        if tk.startswith("cwire=") and not tk.endswith("=-"):
            ms = scen_parse(bytes.fromhex(tk[6:]))
            tk = "cwire=" + ",".join(sorted(W.msg(m).hex() for m in ms))
        toks.append(tk)
    return " ".join(toks)


def norm_impl(obs, line=None):
    if obs is not None and line is not None and line.split()[1] == "chain":
        obs = " ".join(t for t in obs.split() if t != "c=ok")
    return canon(obs, line)


norm_model = canon


def judge(line, obs, orc):
    if line.split()[1] == "chain":
        return chaincases.judge(line, obs)
    if S.bad_obs(obs):
        return "implementation " + str(obs)[:80]
    raw_obs = obs
    obs = canon(obs)
    parts = [p.split() for p in line.split(" / ")]
    head = parts[0]
    ft, bt = head[2], head[3]
    cid, fedf, fedb = {}, {}, {}
    for p in parts[1:]:
        if p[0] == "fattach":
            cid[p[1]] = W.untok(p[3][3:])
            fedf[p[1]] = b""
        elif p[0] == "battach":
            fedb[p[1]] = b""
        elif p[0] == "ffeed":
            fedf[p[1]] += W.untok(p[2])
        elif p[0] == "bfeed":
            fedb[p[1]] += W.untok(p[2])
    kv = {}
    for tk in obs.split():
        if "=" in tk:
            a, b = tk.split("=", 1)
            kv[a] = b
    if kv.get("status") != "running":
        # a routing failure (reply to an unknown identity) ends proxy(); scenarios only address known clients
        return "proxy() ended: " + obs[-80:]
    # front -> back: every client message, prefixed with the client's identity when the front is a ROUTER,
    # reaches exactly one worker, unchanged
    fwd = []
    for c, b in fedf.items():
        for m in scen_parse(b):
            fwd.append(([cid[c]] if ft == "ROUTER" else []) + m)
    got_b = []
    for w in fedb:
        ms = scen_parse(bytes.fromhex(kv.get("bwire:" + w, "-").replace("-", "")))
        got_b += ms
    if bt == "ROUTER":
        pass  # ROUTER back strips the first frame when routing; covered by the model comparison
    elif sorted(map(repr, got_b)) != sorted(map(repr, fwd)):
        return "messages written to the workers are not exactly the messages received from the clients"
    # back -> front
    bwd = {c: [] for c in cid}
    if ft == "ROUTER" and bt == "DEALER":
        for w, b in fedb.items():
            for m in scen_parse(b):
                who = [c for c, i in cid.items() if i == m[0]]
                if who:
                    bwd[who[0]].append(m[1:])
        for c in cid:
            ms = scen_parse(bytes.fromhex(kv.get("fwire:" + c, "-").replace("-", "")))
            if sorted(map(repr, ms)) != sorted(map(repr, bwd[c])):
                return "client %s did not receive exactly the replies addressed to it" % c
    # order per direction: what one peer sent and one peer on the other side received keeps the sender's order
    def in_order(sub, full):
        idx = [full.index(m) for m in sub if m in full]
        return idx == sorted(idx)
    per_w = {w: list(map(repr, scen_parse(bytes.fromhex(kv.get("bwire:" + w, "-").replace("-", ""))))) for w in fedb}
    if bt != "ROUTER":
        for c, b in fedf.items():
            sent = [repr(([cid[c]] if ft == "ROUTER" else []) + m) for m in scen_parse(b)]
            for w, got in per_w.items():
                if not in_order([g for g in got if g in sent], sent):
                    return "worker %s received client %s's messages out of the order they were sent" % (w, c)
    if ft == "ROUTER" and bt == "DEALER":
        for w, b in fedb.items():
            for c in cid:
                sent = [repr(m[1:]) for m in scen_parse(b) if m[0] == cid[c]]
                got = list(map(repr, scen_parse(bytes.fromhex(kv.get("fwire:" + c, "-").replace("-", "")))))
                if not in_order([g for g in got if g in sent], sent):
                    return "client %s received worker %s's replies out of the order they were sent" % (c, w)
    rawkv = dict(tk.split("=", 1) for tk in raw_obs.split() if "=" in tk)
    if rawkv.get("cwire", "-") != "-":
        capt = [repr(m) for m in scen_parse(bytes.fromhex(rawkv["cwire"]))]
        srcs = [[repr(([cid[c]] if ft == "ROUTER" else []) + m) for m in scen_parse(b)] for c, b in fedf.items()]
        srcs += [[repr(m) for m in scen_parse(b)] for w, b in fedb.items()]
        for sent in srcs:
            if not in_order([g for g in capt if g in sent], sent):
                return "capture socket saw one peer's messages out of the order they were sent"
    if "cwire" in kv:
        want = sorted(W.msg(m).hex() for m in fwd + [m for w, b in fedb.items() for m in scen_parse(b)])
        if kv["cwire"] != ",".join(want) and not (kv["cwire"] == "-" and not want):
            return "capture socket did not get exactly one copy of every forwarded message"
    return None


def nontrivial(line):
    if line.split()[1] == "chain":
        return int(line.split()[2]) >= 2 or int(line.split()[3]) >= 2
    return "bfeed" in line and "ffeed" in line


def classify(line, what):
    return "c15-chain" if line.split()[1] == "chain" else "c15-proxy"
