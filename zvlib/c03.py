"""C03 - bytes from a peer never crash the process or force unbounded allocation."""
import itertools
from . import common as C
from . import wire as W

PID = "C03"
USE_RELEASE = True
JUDGE_RELEASE = True
EXHAUSTIVE = {"quick": False, "thorough": False}
RULE = ("malformed streams: exhaustive over the alphabet {00,01,02,04,05,06,ff,52} up to length 4 (quick) / 5 (thorough) after a valid greeting; "
        "structure-aware mutations of valid streams (truncations, name/property/value lengths 0/exact/+1/255/2^32-1, 64-bit sizes 2^31..2^64-1, "
        "1e3..1e5 MORE frames in one read, 2e4 consecutive commands), random bytes; fed to the frame decoder and to all nine socket types at the three handshake stages; "
        "distinct = distinct case text; non-trivial = the stream is not a valid ZMTP stream")
ALPHA = [0x00, 0x01, 0x02, 0x04, 0x05, 0x06, 0xff, 0x52]
SOCKS = ["PUB", "SUB", "XPUB", "REQ", "REP", "DEALER", "ROUTER", "PUSH", "PULL"]
PEER = {"PUB": "SUB", "SUB": "PUB", "XPUB": "SUB", "REQ": "REP", "REP": "REQ", "DEALER": "ROUTER", "ROUTER": "DEALER", "PUSH": "PULL", "PULL": "PUSH"}


def mutations(rng, tier):
    G = W.GREETING
    out = []
    base = G + W.ready(b"DEALER", b"id") + W.msg([b"abc", b"", b"d" * 300])
    for n in range(len(base) + 1):
        out.append(base[:n])
    # command shapes
    for nl in (0, 4, 5, 6, 255):
        for name in (b"READY", b"READ", b"", b"PING!"):
            out.append(G + W.frame(bytes([nl]) + name, cmd=True))
    for pl in (0, 1, 11, 12, 255):
        for vl in (0, 1, 6, 7, 255, 2 ** 32 - 1, 2 ** 31):
            for cutv in (0, 2, 4):
                body = bytes([5]) + b"READY" + bytes([pl]) + b"Socket-Type" + vl.to_bytes(4, "big")[:cutv if cutv else 4] + b"DEALER"
                out.append(G + W.frame(body, cmd=True))
    out.append(G + W.frame(bytes([5]) + b"READY" + bytes([2]) + b"\xff\xfe" + bytes(4), cmd=True))
    # 64-bit sizes
    for sz in (2 ** 31, 2 ** 32, 2 ** 40, 2 ** 62, 2 ** 63, 2 ** 64 - 1, 2 ** 63 - 1):
        for fl in (2, 3, 6):
            out.append(G + bytes([fl]) + sz.to_bytes(8, "big"))
            out.append(G + bytes([fl]) + sz.to_bytes(8, "big") + b"x" * 100)
            out.append(G + W.ready(b"DEALER") + bytes([fl]) + sz.to_bytes(8, "big") + b"y" * 20)
    # ... declared by a LATER frame of a multipart message, after non-empty frames (size accounting across frames)
    for sz in (2 ** 31, 2 ** 40, 2 ** 62, 2 ** 63 - 1, 2 ** 63, 2 ** 64 - 2, 2 ** 64 - 1):
        for pre in (W.frame(b"x", more=True), W.frame(b"x" * 300, more=True), W.frame(b"", more=True) + W.frame(b"yz", more=True),
                    W.frame(b"q" * 255, more=True) * 3):
            for fl in (2, 3):
                out.append(G + W.ready(b"DEALER") + pre + bytes([fl]) + sz.to_bytes(8, "big"))
                out.append(G + pre + bytes([fl]) + sz.to_bytes(8, "big") + b"z" * 50)
    # many MORE frames in one read
    for n in ((1000, 10000) if tier == "quick" else (1000, 10000, 100000)):
        out.append(G + bytes([1, 1, 1]) * n + bytes([0, 0]))
        out.append(G + bytes([1, 0]) * n + bytes([0, 0]))
        out.append(G + bytes([1, 0]) * n)
    # greeting shapes
    for g in (bytes(64), bytes([0xff]) + bytes(63), W.greeting(mech=b"X" * 20), W.greeting(mech=b""), W.greeting(sig9=0), bytes([0xfe]) * 200,
              W.greeting(3, 0, b"NULL") [:63]):
        out.append(g)
        out.append(g + W.ready(b"DEALER"))
    for _ in range(300 if tier == "quick" else 3000):
        n = rng.choice([1, 5, 64, 70, 100, 300])
        out.append(bytes(rng.randrange(256) for _ in range(n)))
        out.append(G + bytes(rng.choice(ALPHA + [rng.randrange(256)]) for _ in range(rng.randint(1, 40))))
    return out


def cases(tier, rng):
    out = []
    k = 0
    G = W.tok(W.GREETING)
    maxlen = 4 if tier == "quick" else 5
    for n in range(1, maxlen + 1):
        for tup in itertools.product(ALPHA, repeat=n):
            out.append("x%d dec %s+%s eof" % (k, G, bytes(tup).hex()))
            k += 1
    muts = mutations(rng, tier)
    for s in muts:
        out.append("m%d dec %s eof" % (k, W.tok(s) if s else "."))
        k += 1
        if len(s) > 70:
            out.append("m%d dec %s|%s" % (k, W.tok(s[:67]), W.tok(s[67:])))
            k += 1
    # socket level: garbage at the three handshake stages, a second healthy peer keeps working
    sample = [s for s in muts if len(s) < 500]
    per = 12 if tier == "quick" else 60
    for t in SOCKS:
        for s in rng.sample(sample, per) + [W.GREETING + bytes([4, 0]), W.GREETING + bytes([2, 0, 0, 1, 0, 0, 0, 0, 0]),
                                            W.GREETING + W.frame(bytes([5]) + b"READY" + bytes([11]) + b"Socket-Type" + bytes([0, 0, 0, 6]) + b"STREAM", cmd=True),
                                            W.GREETING + bytes([1, 0]) * 3000 + bytes([0, 0]),
                                            # tens of thousands of well-formed commands that every recv loop has to skip
                                            W.GREETING + W.frame(bytes([5]) + b"READY", cmd=True) * 20000,
                                            W.GREETING + W.frame(bytes([4]) + b"PING" + bytes([0, 0]), cmd=True) * 20000,
                                            # well-formed MESSAGES that the socket types give a meaning to (envelopes, subscriptions,
                                            # identities) in degenerate shapes: empty frames, only empty frames, odd first octets
                                            W.GREETING + W.msg([b""]), W.GREETING + W.msg([b"", b""]), W.GREETING + W.msg([b""] * 4),
                                            W.GREETING + W.msg([b"\x01"]) + W.msg([b"\x00"]) + W.msg([b"\x00"]) + W.msg([b""]),
                                            W.GREETING + W.msg([b"\x02junk"]) + W.msg([b"\xff" * 300]) + W.msg([b"x"] * 5),
                                            W.GREETING + W.msg([b"", b"", b"q"]) + W.msg([b"q", b""]) + W.msg([b"", b"q", b""])]:
            for stage in (1, 2, 3):
                if stage == 1:
                    raw = s[64:] if s.startswith(W.GREETING) else s
                elif stage == 2:
                    raw = s if s.startswith(W.GREETING) else W.GREETING + s
                else:
                    raw = W.GREETING + W.ready(PEER[t].encode()) + (s[64:] if s.startswith(W.GREETING) else s)
                ops = ["attach a %s raw=%s cut=%d" % (PEER[t], W.tok(raw) if raw else "-", len(raw))]
                ops.append("attach b %s" % PEER[t])
                if t in ("PULL", "DEALER", "ROUTER", "SUB", "XPUB"):
                    ops += ["feed b 00025a5a", "recv", "recv"]
                elif t == "REP":
                    ops += ["feed b 010000025a5a", "recv", "recv"]
                elif t == "REQ":
                    ops += ["send 5a", "send 5a", "wire b"]
                elif t == "PUSH":
                    ops += ["send 5a", "send 5a", "wire b"]
                elif t == "PUB":
                    ops += ["feed b 000101", "settle", "send 5a", "wire b"]
                out.append("k%d sock %s / %s" % (k, t, " / ".join(ops)))
                k += 1
    return out


def shape(o):
    """C03's theorems speak about crashes, errors and termination, not about payload contents: compare the
    kinds of the decoded items, the error classes and the end state"""
    out = []
    for t in o.split():
        if t.startswith(("depth=", "mem=", "held=")):
            continue
        if t.startswith("C:"):
            t = "C"
        elif t.startswith("M:"):
            t = "M%d" % (t.count(";") + 1)
        elif t.startswith("G:"):
            t = "G"
        out.append(t)
    return " ".join(out)


def norm_impl(o):
    return shape(o)


def norm_model(o):
    return shape(o)


def compare_filter(line):
    # the extracted model is quadratic in the stream length: compare it on streams up to ~6 KB,
    # the oracle below still judges the implementation on the long ones
    import re
    big = any(int(n) >= 50000 for n in re.findall(r"r(\d+)\.", line))
    return line.split()[1] == "dec" and len(line) < 3000 and not big and "r1000" not in line and "r2000" not in line and "r3000" not in line


def judge(line, impl_obs, orc):
    sp = line.split()
    if impl_obs is None:
        return "no observation"
    if impl_obs.startswith(("panic", "abort", "hang")) or "PANICS" in impl_obs or "taskpanic" in impl_obs or "=panic" in impl_obs or "spin" in impl_obs.split():
        return "implementation crashed: " + impl_obs[:80]
    if sp[1] == "dec":
        toks = dict(t.split("=") for t in impl_obs.split() if "=" in t and t.split("=")[0] in ("buf", "depth", "mem"))
        fed, cap, peak, maxreq = (int(x) for x in toks["mem"].split(","))
        if int(toks["depth"]) > 2:
            return "decode nesting depth %s grows with the input" % toks["depth"]
        if peak > 64 * fed + 65536 or maxreq > 32 * fed + 32768:
            return "allocation out of proportion: fed %d bytes, peak growth %d, largest request %d" % (fed, peak, maxreq)
        if cap > 4 * fed + 32768:
            return "read buffer capacity %d for %d bytes received" % (cap, fed)
    else:
        t = sp[2]
        # the healthy peer b must have been admitted and served
        if "att:b=ok" not in impl_obs:
            return "healthy peer not admitted next to a misbehaving one: " + impl_obs[:120]
        if t in ("PULL", "DEALER", "SUB", "XPUB"):
            if "r=ok:5a5a" not in impl_obs:
                return "healthy peer's message not delivered: " + impl_obs[:160]
        elif t == "ROUTER":
            if "r=ok:@b;5a5a" not in impl_obs:
                return "healthy peer's message not delivered: " + impl_obs[:160]
        elif t == "REP":
            if "r=ok:5a5a" not in impl_obs:
                return "healthy peer's request not delivered: " + impl_obs[:160]
        elif t in ("PUSH",):
            if "wire:b=00015a" not in impl_obs and "wire:b=00015a00015a" not in impl_obs:
                return "healthy peer not served: " + impl_obs[:160]
        elif t == "REQ":
            if "s=ok" not in impl_obs:
                return "no send succeeded although a healthy peer is connected: " + impl_obs[:160]
        elif t == "PUB":
            if "wire:b=00015a" not in impl_obs:
                return "healthy subscriber not served: " + impl_obs[:160]
    return None


def nontrivial(line):
    return True


def classify(line, what):
    if "depth" in what:
        return "c03-recursion"
    if "allocation" in what or "capacity" in what:
        return "c03-allocation"
    return "c03-crash-" + line.split()[1]
