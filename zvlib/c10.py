"""C10 - round-robin senders deliver each message to exactly one peer, in rotation."""
import itertools
from . import common as C
from . import wire as W
from . import sockcheck as S

PID = "C10"
RULE = ("PUSH, DEALER and REQ with 0-5 scripted peers: every join order / join time relative to sends for <= 3 peers and <= 6 sends "
        "(exhaustive), seeded random beyond; message shapes from the C01 grid; writers that accept k bytes per call or answer Pending first; "
        "per-connection wire snapshot taken when send returns; distinct = distinct scenario; non-trivial = >= 2 peers or a constrained writer")
KNOWN = "rr-duplicate-id-after-rejoin"


def peer(t):
    return {"PUSH": "PULL", "DEALER": "ROUTER", "REQ": "REP"}[t]


def msgtok(rng, i):
    shapes = [[b"m%d" % i], [b"", b"m%d" % i], [b"m%d" % i, b"x" * 255, b"y" * 256], [b"m%d" % i + b"z" * 70000]]
    return ";".join(W.tok(f) for f in rng.choice(shapes[:3] if rng.random() < 0.95 else shapes))


def cases(tier, rng):
    out = []
    k = 0
    for t in ("PUSH", "DEALER", "REQ"):
        # exhaustive: n peers (0..3), 6 sends, each peer joins before send number j (0..6)
        for n in range(0, 4):
            for joins in itertools.product(range(0, 7), repeat=n):
                if n == 3 and tier == "quick" and (sum(joins) % 3) != 0:
                    continue
                ops = []
                names = "abc"[:n]
                for s in range(0, 7):
                    for c, j in zip(names, joins):
                        if j == s:
                            ops.append("attach %s %s" % (c, peer(t)))
                    if s < 6:
                        ops.append("send %s" % W.tok(b"m%d" % s))
                        ops += ["wire " + c for c in names if joins[names.index(c)] <= s]
                        if t == "REQ":
                            # the reply arrives, so that the next request may be sent
                            ops.append("feedall")
                out.append("x%d sock %s / %s" % (k, t, " / ".join(ops)))
                k += 1
        for _ in range(120 if tier == "quick" else 2000):
            n = rng.randint(1, 5)
            names = "abcde"[:n]
            ops = ["attach %s %s" % (c, peer(t)) for c in names]
            for c in names:
                r = rng.random()
                if r < 0.3:
                    ops.append("wmode %s limit=%d" % (c, rng.choice([1, 2, 7, 100])))
                elif r < 0.5:
                    ops.append("wplan %s %s" % (c, ",".join(rng.choice(["p", "w1", "w3", "p,p", "w2,p"]) for _ in range(rng.randint(1, 6)))))
            for i in range(rng.randint(n, 3 * n + 2)):
                ops.append("send " + msgtok(rng, i))
                ops += ["wire " + c for c in names]
                if t == "REQ":
                    ops.append("feedall")
            out.append("y%d sock %s / %s" % (k, t, " / ".join(ops)))
            k += 1
    # a peer that has gone, observed by the socket, while its id is still queued in the rotation: the sends that skip it
    # still write the message intact to exactly one live peer, in rotation; with no peer left the message comes back intact
    for t in ("REQ", "DEALER"):
        for n in (1, 2, 3, 4):
            names = "abcd"[:n]
            for vi in range(n):
                v = names[vi]
                ops = ["attach %s %s" % (c, peer(t)) for c in names]
                if t == "REQ":
                    for i in range(vi):
                        ops += ["send %s" % W.tok(b"w%d" % i)] + ["wire " + c for c in names] + ["feed %s %s" % (names[i], W.tok(W.msg([b"", b"ok"]))), "recv"]
                    ops += ["send 7631"] + ["wire " + c for c in names] + ["eof " + v, "recv"]
                else:
                    ops += ["feed %s 0009aabb" % v, "eof " + v, "recv"]
                live = [c for c in names if c != v]
                for i in range(2 * n + 1):
                    ops += ["send %s;%s" % (W.tok(b"d%d" % i), W.tok(b"x" * (i % 3)))] + ["wire " + c for c in live]
                    if t == "REQ" and live:
                        ops += ["feed %s %s" % (c, W.tok(W.msg([b"", b"ok"]))) for c in live] + ["recv"]
                out.append("d%d sock %s / %s" % (k, t, " / ".join(ops)))
                k += 1
    # ... and a peer that joins after such a loss (the stale id still queued) takes part in the rotation
    for t in ("DEALER", "REQ"):
        for n in (2, 3):
            names = "abc"[:n]
            v = names[0]
            ops = ["attach %s %s" % (c, peer(t)) for c in names]
            if t == "REQ":
                ops += ["send 7631"] + ["wire " + c for c in names] + ["eof " + v, "recv"]
            else:
                ops += ["feed %s 0009aabb" % v, "eof " + v, "recv"]
            ops += ["attach e " + peer(t)]
            live = [c for c in names if c != v] + ["e"]
            for i in range(2 * len(live) + 1):
                ops += ["send %s" % W.tok(b"l%d" % i)] + ["wire " + c for c in live]
                if t == "REQ":
                    ops += ["feed %s %s" % (c, W.tok(W.msg([b"", b"ok"]))) for c in live] + ["recv"]
            out.append("d%d sock %s / %s" % (k, t, " / ".join(ops)))
            k += 1
    # a still-connected server whose reply is malformed (recv returns a format error) stays in the rotation
    for n in (2, 3):
        names = "abc"[:n]
        for junk in ([b"oops"], [b"x", b"y"]):
            ops = ["attach %s REP" % c for c in names]
            ops += ["send 7131"] + ["wire " + c for c in names] + ["feed a " + W.tok(W.msg(junk)), "recv"]
            for i in range(2 * n + 1):
                ops += ["send %s" % W.tok(b"j%d" % i)] + ["wire " + c for c in names]
                ops += ["feed %s %s" % (c, W.tok(W.msg([b"", b"ok"]))) for c in names] + ["recv"]
            out.append("d%d sock REQ / %s" % (k, " / ".join(ops)))
            k += 1
    # peers whose READY carries an Identity property that is present but empty: each is a peer of its own in the rotation
    for t in ("PUSH", "DEALER", "REQ"):
        for n in (2, 3):
            names = "abc"[:n]
            ops = ["attach %s %s id=-" % (c, peer(t)) for c in names]
            for i in range(2 * n + 1):
                ops += ["send %s" % W.tok(b"e%d" % i)] + ["wire " + c for c in names]
                if t == "REQ":
                    ops += ["feed %s %s" % (c, W.tok(W.msg([b"", b"ok"]))) for c in names] + ["recv"]
            out.append("d%d sock %s / %s" % (k, t, " / ".join(ops)))
            k += 1
    # known class: a peer re-joins under its old identity while its stale id is still queued
    out.append("z%d sock DEALER / attach a ROUTER id=41 / attach b ROUTER id=42 / feed a 0009aabb / eof a / recv / attach c ROUTER id=41 / "
               "send 31 / wire b / wire c / send 32 / wire b / wire c / send 33 / wire b / wire c / send 34 / wire b / wire c / send 35 / wire b / wire c / send 36 / wire b / wire c" % k)
    k += 1
    # REQ feedall expansion: a reply on every connection that has an outstanding request is awkward to
    # know statically, so every connection gets one queued reply per send and REQ reads only its requestee's
    res = []
    for line in out:
        if "feedall" in line:
            parts = line.split(" / ")
            names = [p.split()[1] for p in parts if p.startswith("attach ")]
            new = []
            attached = []
            for p in parts:
                if p.startswith("attach "):
                    attached.append(p.split()[1])
                if p == "feedall":
                    for c in attached:
                        new.append("feed %s %s" % (c, W.tok(W.msg([b"", b"ok"]))))
                    new.append("recv")
                else:
                    new.append(p)
            line = " / ".join(new)
        res.append(line)
    return res


def compare_filter(line):
    return "wmode" not in line and "wplan" not in line and not line.startswith("z")


def norm_impl(o, line):
    return S.canon_impl(o, line)


def judge(line, obs, orc):
    if S.bad_obs(obs):
        return "implementation " + str(obs)[:80]
    t, po = S.pair_ops_obs(line, obs)
    attached = []
    hits = []           # connection reached by each successful send, in order
    i = 0
    while i < len(po):
        op, tk = po[i]
        if op[0] == "attach":
            attached.append(op[1])
        if op[0] == "eof" and op[1] in attached:
            attached.remove(op[1])      # (the cases let the socket observe the loss before the next send)
        if op[0] == "send":
            frames = S.frames_of_tok(op[1])
            wires = {}
            j = i + 1
            while j < len(po) and po[j][0][0] == "wire":
                wires[po[j][0][1]] = po[j][1].split("=", 1)[1]
                j += 1
            want = S.enc(([b""] if t == "REQ" else []) + frames)
            if tk == "s=ok":
                got = [c for c, wv in wires.items() if wv != "-"]
                if len(got) != 1 or wires[got[0]] != want:
                    return "successful send did not write the complete message to exactly one peer: %s" % str({c: v[:40] for c, v in wires.items()})
                hits.append((got[0], tuple(attached)))
            elif tk.startswith("s=err:ReturnToSender:"):
                if tk != "s=err:ReturnToSender:" + op[1] and S.frames_of_tok(tk.split(":", 2)[2]) != frames:
                    return "message not handed back intact: " + tk[:80]
                if any(wv != "-" for wv in wires.values()):
                    return "failed send wrote bytes"
                if attached and not (t == "REQ"):
                    return "send failed although peers are connected: " + tk[:60]
            elif tk == "s=pending":
                pass
            else:
                if t == "REQ" and tk.startswith("s=err:ReturnToSender"):
                    pass
                else:
                    return "unexpected send result " + tk[:80]
            i = j
            continue
        i += 1
    # strict rotation: within a stretch of sends during which the peer set (n peers) did not change,
    # any n consecutive successful sends reach n different peers
    for a in range(len(hits)):
        peers = hits[a][1]
        n = len(peers)
        window = hits[a:a + n]
        if len(window) == n and all(w[1] == peers for w in window):
            if len(set(w[0] for w in window)) != n:
                if line.startswith("z"):
                    return "KNOWN:" + KNOWN
                return "%d consecutive sends with a stable set of %d peers reached %s" % (n, n, [w[0] for w in window])
    return None


def nontrivial(line):
    return line.count("attach") >= 2 or "wmode" in line or "wplan" in line


def classify(line, what):
    if what.startswith("KNOWN:"):
        return what[6:]
    return "c10-" + ("rotation" if "consecutive" in what else "delivery")


norm_model = norm_impl
