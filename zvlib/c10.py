"""C10 - round-robin senders deliver each message to exactly one peer, in rotation."""
import itertools
from . import common as C
from . import wire as W
from . import sockcheck as S

PID = "C10"
RULE = ("PUSH, DEALER and REQ with 0-5 scripted peers: every join order / join time relative to sends for <= 3 peers and <= 6 sends "
        "(exhaustive), seeded random beyond; message shapes from the C01 grid; writers that accept k bytes per call or answer Pending first; "
        "per-connection wire snapshot taken when send returns; distinct = distinct scenario; non-trivial = >= 2 peers or a constrained writer")
KNOWN = "rr-duplicate-id-after-rejoin"


def peer(t):
    return {"PUSH": "PULL", "DEALER": "ROUTER", "REQ": "REP"}[t]


def msgtok(rng, i):
    shapes = [[b"m%d" % i], [b"", b"m%d" % i], [b"m%d" % i, b"x" * 255, b"y" * 256], [b"m%d" % i + b"z" * 70000]]
    return ";".join(W.tok(f) for f in rng.choice(shapes[:3] if rng.random() < 0.95 else shapes))


def cases(tier, rng):
    out = []
    k = 0
    for t in ("PUSH", "DEALER", "REQ"):
        # exhaustive: n peers (0..3), 6 sends, each peer joins before send number j (0..6)
        for n in range(0, 4):
            for joins in itertools.product(range(0, 7), repeat=n):
                if n == 3 and tier == "quick" and (sum(joins) % 3) != 0:
                    continue
                ops = []
                names = "abc"[:n]
                for s in range(0, 7):
                    for c, j in zip(names, joins):
                        if j == s:
                            ops.append("attach %s %s" % (c, peer(t)))
                    if s < 6:
                        ops.append("send %s" % W.tok(b"m%d" % s))
                        ops += ["wire " + c for c in names if joins[names.index(c)] <= s]
                        if t == "REQ":
                            # the reply arrives, so that the next request may be sent
                            ops.append("feedall")
                out.append("x%d sock %s / %s" % (k, t, " / ".join(ops)))
                k += 1
        for _ in range(120 if tier == "quick" else 2000):
            n = rng.randint(1, 5)
            names = "abcde"[:n]
            ops = ["attach %s %s" % (c, peer(t)) for c in names]
            for c in names:
                r = rng.random()
                if r < 0.3:
                    ops.append("wmode %s limit=%d" % (c, rng.choice([1, 2, 7, 100])))
                elif r < 0.5:
                    ops.append("wplan %s %s" % (c, ",".join(rng.choice(["p", "w1", "w3", "p,p", "w2,p"]) for _ in range(rng.randint(1, 6)))))
            for i in range(rng.randint(n, 3 * n + 2)):
                ops.append("send " + msgtok(rng, i))
                ops += ["wire " + c for c in names]
                if t == "REQ":
                    ops.append("feedall")
            out.append("y%d sock %s / %s" % (k, t, " / ".join(ops)))
            k += 1
    # a peer that has gone, observed by the socket, while its id is still queued in the rotation: the sends that skip it
    # still write the message intact to exactly one live peer, in rotation; with no peer left the message comes back intact
    for t in ("REQ", "DEALER"):
        for n in (1, 2, 3, 4):
            names = "abcd"[:n]
            for vi in range(n):
                v = names[vi]
                ops = ["attach %s %s" % (c, peer(t)) for c in names]
                if t == "REQ":
                    for i in range(vi):
                        ops += ["send %s" % W.tok(b"w%d" % i)] + ["wire " + c for c in names] + ["feed %s %s" % (names[i], W.tok(W.msg([b"", b"ok"]))), "recv"]
                    ops += ["send 7631"] + ["wire " + c for c in names] + ["eof " + v, "recv"]
                else:
                    ops += ["feed %s 0009aabb" % v, "eof " + v, "recv"]
                live = [c for c in names if c != v]
                for i in range(2 * n + 1):
                    ops += ["send %s;%s" % (W.tok(b"d%d" % i), W.tok(b"x" * (i % 3)))] + ["wire " + c for c in live]
                    if t == "REQ" and live:
                        ops += ["feed %s %s" % (c, W.tok(W.msg([b"", b"ok"]))) for c in live] + ["recv"]
                out.append("d%d sock %s / %s" % (k, t, " / ".join(ops)))
                k += 1
    # ... and a peer that joins after such a loss (the stale id still queued) takes part in the rotation
    for t in ("DEALER", "REQ"):
        for n in (2, 3):
            names = "abc"[:n]
            v = names[0]
            ops = ["attach %s %s" % (c, peer(t)) for c in names]
            if t == "REQ":
                ops += ["send 7631"] + ["wire " + c for c in names] + ["eof " + v, "recv"]
            else:
                ops += ["feed %s 0009aabb" % v, "eof " + v, "recv"]
            ops += ["attach e " + peer(t)]
            live = [c for c in names if c != v] + ["e"]
            for i in range(2 * len(live) + 1):
                ops += ["send %s" % W.tok(b"l%d" % i)] + ["wire " + c for c in live]
                if t == "REQ":
                    ops += ["feed %s %s" % (c, W.tok(W.msg([b"", b"ok"]))) for c in live] + ["recv"]
            out.append("d%d sock %s / %s" % (k, t, " / ".join(ops)))
            k += 1
    # a still-connected server whose reply is malformed (recv returns a format error) stays in the rotation
    for n in (2, 3):
        names = "abc"[:n]
        for junk in ([b"oops"], [b"x", b"y"]):
            ops = ["attach %s REP" % c for c in names]
            ops += ["send 7131"] + ["wire " + c for c in names] + ["feed a " + W.tok(W.msg(junk)), "recv"]
            for i in range(2 * n + 1):
                ops += ["send %s" % W.tok(b"j%d" % i)] + ["wire " + c for c in names]
                ops += ["feed %s %s" % (c, W.tok(W.msg([b"", b"ok"]))) for c in names] + ["recv"]
            out.append("d%d sock REQ / %s" % (k, " / ".join(ops)))
            k += 1
    # peers whose READY carries an Identity property that is present but empty: each is a peer of its own in the rotation
    for t in ("PUSH", "DEALER", "REQ"):
        for n in (2, 3):
            names = "abc"[:n]
            ops = ["attach %s %s id=-" % (c, peer(t)) for c in names]
            for i in range(2 * n + 1):
                ops += ["send %s" % W.tok(b"e%d" % i)] + ["wire " + c for c in names]
                if t == "REQ":
                    ops += ["feed %s %s" % (c, W.tok(W.msg([b"", b"ok"]))) for c in names] + ["recv"]
            out.append("d%d sock %s / %s" % (k, t, " / ".join(ops)))
            k += 1
    # a peer re-joins under its old identity while its stale id is still queued (the loss was noticed by recv, or not noticed
    # at all: the old connection is simply superseded): it takes that entry over - one turn per round, as before
    # (until /repo 6c4dd95 this was the listed finding rr-duplicate-id-after-rejoin)
    for ida, idb in ((b"A", b"B"), (b"x" * 255, b"y")):
        sends = " / ".join("send %02x / wire b / wire c" % (0x31 + i) for i in range(6))
        out.append("z%d sock DEALER / attach a ROUTER id=%s / attach b ROUTER id=%s / feed a 0009aabb / eof a / recv / attach c ROUTER id=%s / %s"
                   % (k, W.tok(ida), W.tok(idb), W.tok(ida), sends))
        k += 1
        for t in ("DEALER", "PUSH"):
            out.append("z%d sock %s / attach a %s id=%s / attach b %s id=%s / attach c %s id=%s / %s"
                       % (k, t, peer(t), W.tok(ida), peer(t), W.tok(idb), peer(t), W.tok(ida), sends))
            k += 1
            out.append("z%d sock %s / attach a %s id=%s / attach b %s id=%s / send 2d / wire a / wire b / attach c %s id=%s / %s"
                       % (k, t, peer(t), W.tok(ida), peer(t), W.tok(idb), peer(t), W.tok(ida), sends))
            k += 1
        rq = " / ".join("send %02x / wire b / wire c / feed b %s / feed c %s / recv" % (0x31 + i, W.tok(W.msg([b"", b"ok"])), W.tok(W.msg([b"", b"ok"]))) for i in range(6))
        out.append("z%d sock REQ / attach a REP id=%s / attach b REP id=%s / attach c REP id=%s / %s" % (k, W.tok(ida), W.tok(idb), W.tok(ida), rq))
        k += 1
    # a peer whose connection FAILS ON A SEND leaves the rotation at once; when it re-joins under its old identity the
    # rotation over the two peers must be exact again (this is not the listed finding: there the loss is noticed by recv
    # and a stale entry is known to stay queued)
    for t in ("DEALER", "PUSH"):
        for kind in ("BrokenPipe", "ConnectionReset"):
            for ida, idb in ((b"A", b"B"), (b"x" * 255, b"y")):
                ops = ["attach a %s id=%s" % (peer(t), W.tok(ida)), "attach b %s id=%s" % (peer(t), W.tok(idb)), "wmode a broken=" + kind,
                       "send 31", "wire a", "wire b", "send 32", "wire a", "wire b", "attach c %s id=%s" % (peer(t), W.tok(ida))]
                for i in range(6):
                    ops += ["send %02x" % (0x41 + i), "wire b", "wire c"]
                out.append("j%d sock %s / %s" % (k, t, " / ".join(ops)))
                k += 1
    # connections that answer each write from a script (partial writes, transient and standing back-pressure with the
    # caller giving up, write errors, Ok(0)), changed at arbitrary points: compared with Model/RrSend.v
    for t in ("PUSH", "DEALER"):
        for _ in range(150 if tier == "quick" else 2500):
            n = rng.randint(2, 4)
            names = "abcd"[:n]
            ops = ["attach %s %s" % (c, peer(t)) for c in names]
            i = 0
            for _ in range(rng.randint(4, 16)):
                r = rng.random()
                c = rng.choice(names)
                if r < 0.55:
                    ops.append("send " + msgtok(rng, i).replace("+r70000.7a", ""))
                    ops += ["wire " + x for x in names]
                    i += 1
                elif r < 0.8:
                    ops.append("wmode %s %s" % (c, rng.choice(["all", "all", "limit=%d" % rng.choice([1, 3, 100]), "stall", "stall",
                                                                "broken=BrokenPipe", "broken=ConnectionReset", "zero"])))
                else:
                    ops.append("wplan %s %s" % (c, ",".join(rng.choice(["p", "w1", "w3", "w300", "p,p", "z", "e:BrokenPipe", "e:ConnectionReset"])
                                                            for _ in range(rng.randint(1, 4)))))
            out.append("r%d sock %s / %s" % (k, t, " / ".join(ops)))
            k += 1
    # generated identities are fresh: a peer that announces the identity the generator would hand out next keeps its place
    # when the next anonymous peer arrives - three peers, three turns per round
    for t in ("PUSH", "DEALER"):
        for inc in (1, 2):
            ops = ["attach p %s" % peer(t), "attach a %s id=next+%d" % (peer(t), inc), "attach q %s" % peer(t), "attach r %s" % peer(t)]
            for i in range(8):
                ops += ["send %02x" % (0x61 + i), "wire p", "wire a", "wire q", "wire r"]
            out.append("x%d sock %s / %s" % (k, t, " / ".join(ops)))
            k += 1
    # REQ feedall expansion: a reply on every connection that has an outstanding request is awkward to
    # know statically, so every connection gets one queued reply per send and REQ reads only its requestee's
    res = []
    for line in out:
        if "feedall" in line:
            parts = line.split(" / ")
            names = [p.split()[1] for p in parts if p.startswith("attach ")]
            new = []
            attached = []
            for p in parts:
                if p.startswith("attach "):
                    attached.append(p.split()[1])
                if p == "feedall":
                    for c in attached:
                        new.append("feed %s %s" % (c, W.tok(W.msg([b"", b"ok"]))))
                    new.append("recv")
                else:
                    new.append(p)
            line = " / ".join(new)
        res.append(line)
    return res


def compare_filter(line):
    return line.startswith("r") or ("wmode" not in line and "wplan" not in line and "id=next+" not in line and not line.startswith(("z", "j")))


def model_cases(case_lines):
    out = []
    for line in case_lines:
        if not line.startswith("r"):
            out.append(line)
            continue
        parts = [p.split() for p in line.split(" / ")]
        ops = []
        for op in parts[1:]:
            if op[0] == "attach":
                ops.append("attach " + op[1])
            elif op[0] == "wmode":
                m = op[2]
                a = "a" if m == "all" else "p" if m == "stall" else "z" if m == "zero" else "w" + m[6:] if m.startswith("limit=") else "e:" + m.split("=")[1]
                ops.append("mode %s %s" % (op[1], a))
            elif op[0] == "wplan":
                ops.append("plan %s %s" % (op[1], op[2]))
            else:
                ops.append(" ".join(op))
        out.append("%s rrsend / %s" % (parts[0][0], " / ".join(ops)))
    return out


def norm_impl(o, line):
    if line.startswith("r"):
        return " ".join("s=err:ReturnToSender" if t.startswith("s=err:ReturnToSender") else t for t in o.split() if not t.startswith("att:"))
    return S.canon_impl(o, line)


def norm_model(o, line):
    return o if line.startswith("r") else S.canon_impl(o, line)


def script_judge(line, po, t):
    """Oracle for the scripted-connection cases, independent of the model: every send attempt is the turn of the head of
    the rotation (attach order, each attempt moves the head to the tail, a failed write removes it); bytes appear on that
    connection only; success = everything owed to that connection is on its wire, whole and in order."""
    rr, owed = [], {}
    i = 0
    while i < len(po):
        op, tk = po[i]
        if op[0] == "attach":
            rr.append(op[1])
            owed[op[1]] = b""
        if op[0] != "send":
            i += 1
            continue
        wires, j = {}, i + 1
        while j < len(po) and po[j][0][0] == "wire":
            hx = po[j][1].split("=", 1)[1]
            wires[po[j][0][1]] = bytes.fromhex(hx) if hx != "-" else b""
            j += 1
        i = j
        enc = bytes.fromhex(S.enc(S.frames_of_tok(op[1])).replace("-", ""))
        if not rr:
            if not tk.startswith("s=err:ReturnToSender") or any(wires.values()):
                return "send without a connected peer: %s" % tk[:60]
            continue
        head = rr[0]
        if any(v for c, v in wires.items() if c != head):
            return "it was %s's turn but bytes were written to %s (result %s)" % (head, [c for c, v in wires.items() if v and c != head], tk[:40])
        due = owed[head] + enc
        got = wires.get(head, b"")
        if tk == "s=ok":
            if got != due:
                return "send returned success but the wire of %s does not hold the complete message (and what was owed before it)" % head
            owed[head] = b""
            rr = rr[1:] + [head]
        elif tk == "s=pending":
            if not due.startswith(got):
                return "bytes on %s's wire are not a prefix of what is owed to it" % head
            owed[head] = due[len(got):]
            rr = rr[1:] + [head]
        elif tk.startswith("s=err:ReturnToSender"):
            return "send was refused although %s is connected and it is its turn: %s" % (head, tk[:60])
        elif tk.startswith("s=err"):
            if not due.startswith(got):
                return "bytes on the failed connection %s are not a prefix of what was owed to it" % head
            rr = rr[1:]
        else:
            return "unexpected send result " + tk[:60]
    return None


def judge(line, obs, orc):
    if S.bad_obs(obs):
        return "implementation " + str(obs)[:80]
    t, po = S.pair_ops_obs(line, obs)
    if line.startswith("r"):
        return script_judge(line, po, t)
    if line.startswith("z"):
        seq, i = [], 0
        rejoined = False
        while i < len(po):
            op, tk = po[i]
            if op[0] == "attach" and op[1] == "c":
                rejoined = True
            if op[0] == "send":
                wires = {}
                j = i + 1
                while j < len(po) and po[j][0][0] == "wire":
                    wires[po[j][0][1]] = po[j][1].split("=", 1)[1]
                    j += 1
                if rejoined:
                    got = [c for c, wv in wires.items() if wv != "-"]
                    if tk != "s=ok" or len(got) != 1:
                        return "send after the re-join did not reach exactly one peer: %s %s" % (tk[:60], {c: v[:30] for c, v in wires.items()})
                    seq.append(got[0])
                i = j
                continue
            i += 1
        if any(x == y for x, y in zip(seq, seq[1:])):
            return ("a peer that re-joined under its old identity (its earlier connection's entry still queued) is served twice "
                    "per round: sends reached %s" % seq)
        return None
    if line.startswith("j"):
        seq, failed, i = [], 0, 0
        rejoined = False
        while i < len(po):
            op, tk = po[i]
            if op[0] == "attach" and op[1] == "c":
                rejoined = True
            if op[0] == "send":
                wires = {}
                j = i + 1
                while j < len(po) and po[j][0][0] == "wire":
                    wires[po[j][0][1]] = po[j][1].split("=", 1)[1]
                    j += 1
                if not rejoined:
                    failed += tk != "s=ok"
                else:
                    got = [c for c, wv in wires.items() if wv != "-"]
                    if tk != "s=ok" or len(got) != 1:
                        return "send after the re-join did not reach exactly one peer: %s %s" % (tk[:60], {c: v[:30] for c, v in wires.items()})
                    seq.append(got[0])
                i = j
                continue
            i += 1
        if failed and any(x == y for x, y in zip(seq, seq[1:])):
            return ("after a peer's connection failed on a send and the peer re-joined under its old identity, two consecutive "
                    "sends reached the same peer: %s" % seq)
        return None
    attached = []
    hits = []           # connection reached by each successful send, in order
    i = 0
    while i < len(po):
        op, tk = po[i]
        if op[0] == "attach":
            attached.append(op[1])
        if op[0] == "eof" and op[1] in attached:
            attached.remove(op[1])      # (the cases let the socket observe the loss before the next send)
        if op[0] == "send":
            frames = S.frames_of_tok(op[1])
            wires = {}
            j = i + 1
            while j < len(po) and po[j][0][0] == "wire":
                wires[po[j][0][1]] = po[j][1].split("=", 1)[1]
                j += 1
            want = S.enc(([b""] if t == "REQ" else []) + frames)
            if tk == "s=ok":
                got = [c for c, wv in wires.items() if wv != "-"]
                if len(got) != 1 or wires[got[0]] != want:
                    return "successful send did not write the complete message to exactly one peer: %s" % str({c: v[:40] for c, v in wires.items()})
                hits.append((got[0], tuple(attached)))
            elif tk.startswith("s=err:ReturnToSender:"):
                if tk != "s=err:ReturnToSender:" + op[1] and S.frames_of_tok(tk.split(":", 2)[2]) != frames:
                    return "message not handed back intact: " + tk[:80]
                if any(wv != "-" for wv in wires.values()):
                    return "failed send wrote bytes"
                if attached and not (t == "REQ"):
                    return "send failed although peers are connected: " + tk[:60]
            elif tk == "s=pending":
                pass
            else:
                if t == "REQ" and tk.startswith("s=err:ReturnToSender"):
                    pass
                else:
                    return "unexpected send result " + tk[:80]
            i = j
            continue
        i += 1
    # strict rotation: within a stretch of sends during which the peer set (n peers) did not change,
    # any n consecutive successful sends reach n different peers
    for a in range(len(hits)):
        peers = hits[a][1]
        n = len(peers)
        window = hits[a:a + n]
        if len(window) == n and all(w[1] == peers for w in window):
            if len(set(w[0] for w in window)) != n:
                return "%d consecutive sends with a stable set of %d peers reached %s" % (n, n, [w[0] for w in window])
    return None


def nontrivial(line):
    return line.count("attach") >= 2 or "wmode" in line or "wplan" in line


def classify(line, what):
    if what.startswith("KNOWN:"):
        return what[6:]
    return "c10-" + ("rotation" if "consecutive" in what else "delivery")


