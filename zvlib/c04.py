"""C04 - handshake admits exactly the well-formed, RFC-compatible peers."""
import itertools
from . import common as C
from . import wire as W

PID = "C04"
LOCALS = ["PUB", "SUB", "XPUB", "REQ", "REP", "DEALER", "ROUTER", "PUSH", "PULL"]
NAMES = ["PAIR", "PUB", "SUB", "REQ", "REP", "DEALER", "ROUTER", "PULL", "PUSH", "XPUB", "XSUB", "STREAM"]
PEERT = NAMES + ["BOGUS", "MISSING"]
VERS = [(1, 0), (2, 1), (3, 0), (3, 1), (4, 0)]
MECHS = [b"NULL", b"PLAIN", b"CURVE", b"BOGUS", b"NULLX", b"PLAINTEXT", b"CURVE25519", b"NUL", b"ABCDEFGHIJKLMNOPQRST"]
SIGS = ["ok", "bad0", "bad9"]
IDS = [None, b"", b"i", b"I" * 255, b"J" * 256, b"n\x00", b"\x00"]
FIRSTS = ["ready", "cmd", "msg"]
EXHAUSTIVE = {"quick": False, "thorough": True}
RULE = ("grid: 9 local types x 14 peer Socket-Type values (12 names, unknown, missing) x 5 versions x 9 mechanisms (the three known ones, names that only begin with a known one, a truncated one, a full 20-octet field) x 3 signature variants x "
        "5 identity options x 3 first-item kinds = 113400 scripted attaches (thorough: all; quick: all 12x12 table queries + a seeded sample "
        "covering every value of every dimension and every (local, peer type) pair); each attach is followed by a probe that shows whether the "
        "peer is registered exactly once / exchanges messages; distinct = distinct cells; non-trivial = all")

# RFC compatibility, written out again for the probe oracle (names only)
COMPAT = {("PAIR", "PAIR"), ("PUB", "SUB"), ("PUB", "XSUB"), ("XPUB", "SUB"), ("XPUB", "XSUB"), ("SUB", "PUB"), ("SUB", "XPUB"),
          ("XSUB", "PUB"), ("XSUB", "XPUB"), ("REQ", "REP"), ("REQ", "ROUTER"), ("REP", "REQ"), ("REP", "DEALER"),
          ("DEALER", "REP"), ("DEALER", "DEALER"), ("DEALER", "ROUTER"), ("ROUTER", "REQ"), ("ROUTER", "DEALER"), ("ROUTER", "ROUTER"),
          ("PUSH", "PULL"), ("PULL", "PUSH")}

EXTRA = {"PULL": W.msg([b"Z"]), "DEALER": W.msg([b"Z"]), "ROUTER": W.msg([b"Z"]), "SUB": W.msg([b"Z"]),
         "REP": W.msg([b"", b"Z"]), "XPUB": W.msg([b"\x01"]), "PUB": W.msg([b"\x01"]), "REQ": b"", "PUSH": b""}
PROBE = {"PULL": "recv / recv", "DEALER": "recv / recv", "ROUTER": "recv / recv", "SUB": "recv / recv", "REP": "recv / recv",
         "XPUB": "recv / send 5a / wire a", "PUB": "settle / send 5a / wire a", "REQ": "send 5a / wire a", "PUSH": "send 5a / wire a"}


def cell_stream(local, pt, ver, mech, sig, ident, first):
    g = W.greeting(ver[0], ver[1], mech, 0, 0xfe if sig == "bad0" else 0xff, 0x7e if sig == "bad9" else 0x7f)
    st = None if pt == "MISSING" else pt.encode()
    rd = W.ready(st, ident)
    if first == "ready":
        body = rd
    elif first == "cmd":
        body = W.frame(b"\x04PING", cmd=True) + rd
    else:
        body = W.msg([b"X"]) + rd
    return g + body + EXTRA[local]


def cells(tier, rng):
    allc = list(itertools.product(LOCALS, PEERT, VERS, MECHS, SIGS, IDS, FIRSTS))
    if tier == "thorough":
        return allc
    sel = set()
    # every (local, peer type) pair in the clean configuration and with each single deviation
    for l, p in itertools.product(LOCALS, PEERT):
        sel.add((l, p, (3, 0), b"NULL", "ok", None, "ready"))
        sel.add((l, p, (3, 1), b"PLAIN", "ok", b"i", "ready"))
    for l in LOCALS:
        good = [p for p in NAMES if (l, p) in COMPAT][0]
        for v in VERS:
            sel.add((l, good, v, b"NULL", "ok", None, "ready"))
        for m in MECHS:
            sel.add((l, good, (3, 0), m, "ok", None, "ready"))
        for s in SIGS:
            sel.add((l, good, (3, 0), b"NULL", s, None, "ready"))
        for i in IDS:
            sel.add((l, good, (3, 0), b"NULL", "ok", i, "ready"))
            # ... and with every compatible peer type (the READY's size depends on the type's name)
            for p in NAMES:
                if (l, p) in COMPAT:
                    sel.add((l, p, (3, 0), b"NULL", "ok", i, "ready"))
        for f in FIRSTS:
            sel.add((l, good, (3, 0), b"NULL", "ok", None, f))
    for c in rng.sample(allc, 3000):
        sel.add(c)
    return sorted(sel, key=repr)


def cases(tier, rng):
    out = []
    k = 0
    for a, b in itertools.product(NAMES, NAMES):
        out.append("t%d compat %s %s" % (k, a, b))
        k += 1
    for n in NAMES + ["BOGUS", "pub", "", "STREAMX", "XPU"]:
        out.append("n%d stypename %s" % (k, n.encode().hex() or "-"))
        k += 1
    for (l, p, v, m, s, i, f) in cells(tier, rng):
        raw = cell_stream(l, p, v, m, s, i, f)
        idopt = " id=%s" % W.tok(i) if i else ""
        # the cell's parameters travel in the case id, for the reference verdict of the oracle
        cid = "g%d_%s_%d.%d_%s_%s_%s_%s" % (k, p, v[0], v[1], m.decode(), s, "none" if i is None else str(len(i)), f)
        out.append("%s sock %s / attach a X raw=%s%s / %s / dropped a" % (cid, l, W.tok(raw), idopt, PROBE[l]))
        k += 1
    # two peers whose READY carries a present-but-empty Identity (libzmq's default): both admitted, each under its own fresh identity
    for l in LOCALS:
        good = [p for p in NAMES if (l, p) in COMPAT][0]
        out.append("u%d sock %s / attach a %s id=- / attach b %s id=- / dropped a / dropped b" % (k, l, good, good))
        k += 1
    # a peer announcing the identity a counter-like generator would hand out next, then a peer announcing none: the
    # generated identity must be fresh with respect to EVERY identity in use
    for l in LOCALS:
        good = [p for p in NAMES if (l, p) in COMPAT][0]
        out.append("w%d sock %s / attach p %s / attach a %s id=next+1 / attach q %s / dropped p / dropped a / dropped q" % (k, l, good, good, good))
        k += 1
    # a connection that must be refused (incompatible Socket-Type, old version, bad signature) and claims the identity of
    # an established peer: refused, and the established peer is untouched
    for l in LOCALS:
        good = [p for p in NAMES if (l, p) in COMPAT][0]
        bad = [p for p in NAMES if (l, p) not in COMPAT][0]
        for how in ("attach x %s id=6964" % bad, "attach x %s id=6964 ver=2.0" % good, "attach x %s id=6964 sig=bad9" % good):
            extra = " extra=" + W.tok(EXTRA[l]) if EXTRA[l] else ""
            out.append("y%d sock %s / attach a %s id=6964%s / %s / %s / dropped a" % (k, l, good, extra, how, PROBE[l]))
            k += 1
    # on a real listener: a refused connection is reported to the monitor as an accept failure, an admitted one as accepted
    for l in LOCALS:
        bad = [p for p in NAMES if (l, p) not in COMPAT][0]
        out.append("z%d rt %s mon / bind tcp4 / impostor 0 as=%s / impostor 0 as=%s id=6964 / conn 0 / xchg 2 / monitor" % (k, l, bad, bad))
        k += 1
        out.append("z%d rt %s mon / bind ipc / impostor 0 as=BOGUS / conn 0 / xchg 1 / monitor" % (k, l))
        k += 1
    # the outcome of a handshake is reported to the monitor the socket has WHEN THE OUTCOME IS KNOWN: monitor() is called
    # (for the first time, or again) while an inbound connection is in the middle of its handshake
    for l in ("ROUTER", "PULL", "REP", "PUB"):
        for tr in ("tcp4", "ipc"):
            for off in (0, 10, 64):
                for how in ("garbage", "close", "good"):
                    for first in ("", " mon"):
                        out.append("v%d rt %s%s / bind %s / staller 0 off=%d mode=stop / moninstall / finish 0 %s / monitor" % (k, l, first, tr, off, how))
                        k += 1
    # the local socket's OWN identity option plays no part in admission: a peer announcing the very same identity is a
    # well-formed compatible peer
    for l in LOCALS:
        good = [p for p in NAMES if (l, p) in COMPAT][0]
        for ident in (b"node-1", b"n" * 255):
            out.append("u%d sock %s id=%s / attach a %s id=%s / attach b %s id=%s / dropped a / dropped b" %
                       (k, l, W.tok(ident), good, W.tok(ident), good, W.tok(ident + b"x" if len(ident) < 255 else b"m" * 255)))
            k += 1
    # admission is independent of segmentation (C02 hand-over) and needs no EOF
    for l in LOCALS:
        good = [p for p in NAMES if (l, p) in COMPAT][0]
        raw = cell_stream(l, good, (3, 0), b"NULL", "ok", b"id", "ready")
        for cuts in ("1", "64", "63,2", "10,54,1,1,1"):
            out.append("h%d sock %s / attach a X raw=%s id=6964 chunks=%s / %s / dropped a" % (k, l, W.tok(raw), cuts, PROBE[l]))
            k += 1
    return out


_model_cases = {}


def compare_filter(line):
    return not line.startswith(("w", "y", "z", "v"))


def model_cases(case_lines):
    """The model is asked the admission verdict for the same bytes."""
    mc = []
    for line in case_lines:
        sp = line.split()
        if sp[1] != "sock":
            mc.append(line)
            continue
        if sp[0].startswith(("u", "w", "y", "z", "v")):
            mc.append(line)
            continue
        raw = [t for t in sp if t.startswith("raw=")][0][4:]
        mc.append("%s admit %s %s" % (sp[0], sp[2], raw))
    return mc


def norm_impl(o):
    if " att:b=" in o:
        return o
    if o.startswith("att:a="):
        return o.split()[0][6:]
    return o


def expected_probe(local, verdict, ident):
    """what an admitted / rejected peer must look like afterwards (property statement, not model)"""
    adm = verdict.startswith("ok")
    idlabel = "@a" if verdict == "ok:auto" else verdict[3:]
    if local in ("PULL", "DEALER", "SUB"):
        toks = ["r=ok:5a", "r=pending"] if adm else ["r=pending", "r=pending"]
    elif local == "REP":
        toks = ["r=ok:5a", "r=pending"] if adm else ["r=pending", "r=pending"]
    elif local == "ROUTER":
        toks = ["r=ok:%s;5a" % idlabel, "r=pending"] if adm else ["r=pending", "r=pending"]
    elif local == "XPUB":
        toks = ["r=ok:01", "s=ok", "wire:a=00015a"] if adm else ["r=pending", "s=ok", "wire:a=-"]
    elif local == "PUB":
        toks = ["s=ok", "wire:a=00015a"] if adm else ["s=ok", "wire:a=-"]
    elif local == "REQ":
        toks = ["s=ok", "wire:a=010000015a"] if adm else ["s=err:ReturnToSender:5a", "wire:a=-"]
    elif local == "PUSH":
        toks = ["s=ok", "wire:a=00015a"] if adm else ["s=err:ReturnToSender:5a", "wire:a=-"]
    toks.append("dropped:a=" + ("" if adm else "rw"))
    return toks


def judge(line, impl_obs, orc):
    sp = line.split()
    if impl_obs is None:
        return "no observation"
    if impl_obs.startswith(("panic", "abort", "hang")) or "PANICS" in impl_obs:
        return "implementation " + impl_obs[:60]
    if sp[1] == "compat":
        want = "1" if (sp[2], sp[3]) in COMPAT else "0"
        if impl_obs != want:
            return "compatible(%s,%s) = %s, RFC table says %s" % (sp[2], sp[3], impl_obs, want)
        return None
    if sp[1] == "stypename":
        name = bytes.fromhex(sp[2] if sp[2] != "-" else "").decode()
        want = "ok:%s:%d" % (name, NAMES.index(name)) if name in NAMES else "err"
        return None if impl_obs == want else "socket type name %r -> %s" % (name, impl_obs)
    local = sp[2]
    toks = impl_obs.split()
    if sp[1] == "rt" and sp[0].startswith("v"):
        mon = [t for t in toks if t.startswith("mon=")]
        names = mon[0][4:].split(",") if mon and mon[0] != "mon=-" else []
        how = line.split(" / ")[4].split()[2]
        want = "Accepted" if how == "good" else "AcceptFailed"
        if want not in names:
            return ("monitor() was called while an inbound handshake was in flight; the handshake then %s, but the monitor the socket "
                    "has now was told %s" % ("completed" if how == "good" else "failed (%s)" % how, ",".join(names) or "nothing"))
        return None
    if sp[1] == "rt":
        nimp = line.count("impostor")
        mon = [t for t in toks if t.startswith("mon=")]
        names = mon[0][4:].split(",") if mon and mon[0] != "mon=-" else []
        if not any(t.startswith("c#") and t.endswith("=ok") for t in toks) or not any(t.startswith("x#") and t.endswith("=ok") for t in toks):
            return "a compatible peer was not admitted / could not exchange a message on a real listener: " + impl_obs[:160]
        if names.count("AcceptFailed") != nimp or names.count("Accepted") != 1:
            return "monitor of a bound %s socket reports %s for %d refused and 1 admitted connection" % (local, ",".join(names) or "nothing", nimp)
        return None
    if sp[0].startswith("y"):
        if len(toks) < 3 or toks[0] != "att:a=ok:6964" or not toks[1].startswith("att:x=err"):
            return "an incompatible / malformed handshake claiming an established peer's identity: " + impl_obs[:120]
        exp = expected_probe(local, "ok:6964", None)
        if toks[2:-1] != exp[:-1] or toks[-1] not in ("dropped:a=-", "dropped:a=r" if local == "PUSH" else "dropped:a=-"):
            return "a refused handshake claiming the identity of an established peer disturbed that peer: %s (expected %s)" % (" ".join(toks[2:])[:160], " ".join(exp)[:160])
        return None
    if sp[0].startswith("w"):
        keep = "r" if local == "PUSH" else "-"
        ok = (len(toks) == 6 and toks[0] == "att:p=ok:auto" and toks[1].startswith("att:a=ok:") and "auto" not in toks[1]
              and toks[2] == "att:q=ok:auto" and toks[3:] == ["dropped:p=" + keep, "dropped:a=" + keep, "dropped:q=" + keep])
        if not ok:
            return "a generated identity must be fresh with respect to every identity in use (announced ones included): " + impl_obs[:160]
        return None
    if sp[0].startswith("u") and any(x.startswith("id=") for x in sp[3:4]):
        if len(toks) < 2 or not toks[0].startswith("att:a=ok:") or not toks[1].startswith("att:b=ok:"):
            return "a compatible peer announcing the identity the local socket is configured with was not admitted: " + impl_obs[:120]
        return None
    if sp[0].startswith("u"):
        keep = "r" if local == "PUSH" else "-"
        want = ["att:a=ok:auto", "att:b=ok:auto", "dropped:a=" + keep, "dropped:b=" + keep]
        if toks != want:
            return "two peers announcing an empty Identity must both be registered, each under a fresh unique identity: " + impl_obs[:120]
        return None
    verdict = toks[0][6:] if toks and toks[0].startswith("att:a=") else "?"
    if sp[0].startswith("g") and "_" in sp[0]:
        # reference reading of the property text: admitted iff signature ok, version >= 3.0, known mechanism,
        # first item a READY whose Socket-Type is known and RFC-compatible, Identity (if any) <= 255 bytes;
        # registered under the announced identity, else a fresh one
        _, pt, ver, mech, sig, idl, first = sp[0].split("_")
        major, minor = (int(x) for x in ver.split("."))
        valid = (sig == "ok" and (major, minor) >= (3, 0) and mech in ("NULL", "PLAIN", "CURVE") and first == "ready"
                 and (local, pt) in COMPAT and (idl == "none" or int(idl) <= 255))
        if valid != verdict.startswith("ok"):
            return "peer (%s -> %s, version %s, mechanism %s, signature %s, identity %s bytes, first item %s) should be %s but was %s" % (
                pt, local, ver, mech, sig, idl, first, "admitted" if valid else "rejected", verdict)
        if valid:
            announced = idl not in ("none", "0")
            raw = [t for t in sp if t.startswith("id=")]
            want = ("ok:" + raw[0][3:].replace("r1.", "").lower()) if announced and raw else "ok:auto"
            got = verdict
            if announced:
                idhex = W.untok(raw[0][3:]).hex()
                if got != "ok:" + idhex:
                    return "admitted peer announced a %s-byte identity but was registered as %s" % (idl, got[:40])
            elif got != "ok:auto":
                return "admitted peer announced no identity but was registered as %s" % got[:40]
    if verdict.startswith("ok"):
        exp = expected_probe(local, verdict, None)
        got = toks[1:]
        # released halves: an admitted PUSH drops its read half by design; others hold both
        gd = [t for t in got if t.startswith("dropped:")]
        gp = [t for t in got if not t.startswith("dropped:")]
        if gp != exp[:-1]:
            return "admitted peer is not registered exactly once / does not exchange messages: %s (expected %s)" % (" ".join(gp), " ".join(exp[:-1]))
    elif verdict.startswith("err"):
        exp = expected_probe(local, verdict, None)
        if toks[1:] != exp:
            return "rejected connection not inert/closed: %s (expected %s)" % (" ".join(toks[1:]), " ".join(exp))
    else:
        return "handshake neither admitted nor rejected: " + impl_obs[:100]
    return None


def nontrivial(line):
    return True


def classify(line, what):
    return "c04-" + line.split()[1]
